#!/bin/sh
# runs the quick check of the owning property (or the one named in meta.json "check") against every seeded change, each in its own scratch
# worktree (tools/try_patch.sh); properties run 4 at a time, the seeds of one property one after the other.  Prints a table.
cd "$(dirname "$0")/.." || exit 9
ROOT="$(pwd)"
run_prop() {
  for d in seeded/$1_*/; do
    s=$(basename $d); p=${s%_*}
    alt=$(python3 -c "import json;print(json.load(open('$d/meta.json')).get('check','$p'))")
    if [ -n "$SWEEP_ROUNDS" ]; then   # e.g. SWEEP_ROUNDS="8 9": only the seeds of those rounds
      r=$(python3 -c "import json;print(json.load(open('$d/meta.json')).get('round',0))")
      case " $SWEEP_ROUNDS " in *" $r "*) ;; *) continue;; esac
    fi
    out=$(TRY_LINES=1 tools/try_patch.sh "$ROOT/$d/patch.diff" $alt 2>&1 | grep -E "exit=" | tail -1)
    echo "$s $alt $out"
  done
}
for grp in "C02 C03 C04 C17" "C08 C09 C10 C18" "C05 C15 C06 C19" "C16 C13 C14"; do
  for p in $grp; do run_prop $p > /tmp/sweep_$$_$p.log 2>&1 & done
  wait
done
cat /tmp/sweep_$$_C*.log; rm -f /tmp/sweep_$$_C*.log
git -C /repo status --short; git -C /repo worktree list | grep -c trypatch
