"""C06 - the register command stream encodes exactly the operations it was given.

pair : the public generate_command_stream() on a two-operation list [op1, op2].  Both operations are instances of one template;
       a *group* of their fields is symbolic and independent in op1 and op2, so every register of the group holds an arbitrary
       previous value when op2 is generated (the elision decision "unchanged?" is exercised against an arbitrary history value,
       including equal-payload/different-parameter cases).  The emitted words are decoded by a reference register file and, at op2's
       NPU_OP word, every register of the operation must hold op2's value - whether it was written or elided.  Also: alignment /
       length errors exactly when the hardware rule is broken, no field truncated, waits before the op word, exactly one STOP at the end.
"""
import z3

from symx import core
from symx.core import SInt, SBool, L, B

EXPLANATION = "C06: two-op streams with symbolic field groups through the real generator, decoded by a reference register file."
SHIMS = ["register_command_stream_generator.int -> identity on proxies", "register_command_stream_generator/util: min,max -> ite shims",
         "register_command_stream_generator.calc_blockdep -> 0 (BLOCKDEP is C04's subject)"]
ASSUMPTIONS = ["legal operations = field ranges documented in api.py (addresses < 2^40 on U65 / 2^32 on U55, region 0..7, zero points within the data "
               "type, pads 0..127 fitting the kernel, strides 1..3, lengths < 2^32)",
               "register semantics of the Ethos-U command format: cmd0 = 16-bit parameter; cmd1 = 32-bit payload with bits 32..39 of addresses "
               "(or a 6-bit shift for *_SCALE registers) in the parameter",
               "elision independence between registers of different groups is not examined (each group is run separately)"]
OUTSIDE = ["operation lists longer than 2 (covered by the arbitrary-previous-value argument per register, not by unrolling)",
           "derived SHRAM layout registers (C15) and BLOCKDEP (C04)", "scaling registers derived from float scales (C09)",
           "the kernel and shape groups run with the template's SHRAM layout (get_arch_block_config stubbed to it)"]
BOUNDS = {"groups": "ifm_addr, ofm_addr, weights/biases (1 or 2 ranges on 2 cores), tiles, zero points, padding, regions, activation clamp (with/without scale), "
                    "activation kind/LUT index x OFM type, kernel (size <= 16, stride 1..3 symbolic; dilation, traversal enumerated), IFM/OFM precision (types, layouts, "
                    "rounding, upscaling), shapes (h <= 4096 and w or d <= 4096 symbolic, the other enumerated) with default strides, explicit strides, pooling kind, "
                    "elementwise kind (10 sub-operations) with explicit rescale, IFM2 address/region/zero point, broadcast x operand order, scalar IFM2, pooling OFM scale, "
                    "DMA (lengths up to 2^38 on U65), DMA channel/mode",
          "first_operation": "for enumerated fields the first operation takes a subset of the choices (its role is to leave arbitrary register values), the second all",
          "accelerators": "Ethos_U55_128, Ethos_U65_512"}


def ENCODED():
    import ethosu.vela.register_command_stream_generator as g
    import ethosu.vela.register_command_stream_util as u

    E = g.CommandStreamEmitter
    return [g.generate_register_command_stream, g.generate_command_stream, g.check_mem_limits, g.generate_registers_for_op, g.generate_common, g.generate_ifm, g.generate_ofm, g.generate_addresses,
            g.generate_tiles, g.generate_padding, g.generate_kernel, g.generate_weights, g.generate_biases, g.generate_activation,
            g.generate_block_config, g.generate_dma_op, g.generate_ofm_scaling_for_pooling, g.generate_operation_code, g.generate_cmd_waits,
            E.cmd0_with_param, E.cmd1_with_offset, E.cmd1_with_address, E.cmd_do_operation, E.cmd_wait, g.RegisterMachine.set_register,
            u.check_alignment, u.check_length, u.check_addresses, u.check_dma_op, u.get_wait_dependency]


def _shims():
    import ethosu.vela.register_command_stream_generator as g
    import ethosu.vela.register_command_stream_util as u
    import ethosu.vela.range_set as rs

    return ((g, {"int": core.sint, "min": core.smin, "max": core.smax}), (u, {"min": core.smin, "max": core.smax, "int": core.sint}),
            (rs, {"min": core.smin, "max": core.smax}))


def _template(accel, kind):
    from ethosu.vela import api as a

    def fm(h, w, d, region, addr, dt=a.NpuDataType.UINT8):
        f = a.NpuFeatureMap()
        f.data_type = dt
        f.shape = a.NpuShape3D(h, w, d)
        f.tiles = a.NpuTileBox(width_0=w, height_0=h, height_1=h, addresses=[addr, 0, 0, 0])
        f.region = region
        f.layout = a.NpuLayout.NHWC
        f.quantization = a.NpuQuantization(scale_f32=1.0, zero_point=0)
        return f

    if kind == "conv":
        op = a.NpuConv2DOperation()
        op.ifm = fm(8, 8, 16, 1, 0x1000)
        op.ofm = fm(8, 8, 16, 1, 0x8000)
        op.kernel = a.NpuKernel(3, 3, 1, 1, 1, 1)
        op.padding = a.NpuPadding(1, 1, 1, 1)
        op.weights = [a.NpuAddressRange(0, 0x100, 160)] + ([a.NpuAddressRange(0, 0x400, 160)] if accel.endswith("512") else [])
        op.biases = [a.NpuAddressRange(0, 0x800, 32)] + ([a.NpuAddressRange(0, 0x900, 32)] if accel.endswith("512") else [])
        op.block_traversal = a.NpuBlockTraversal.DEPTH_FIRST
        op.block_config = a.NpuShape3D(2, 2, 16)
    elif kind == "pool":
        from ethosu.vela.operation import ExplicitScaling

        op = a.NpuPoolingOperation(a.NpuPoolingOp.AVERAGE)
        op.ifm = fm(8, 8, 16, 1, 0x1000)
        op.ofm = fm(8, 8, 16, 1, 0x8000)
        op.kernel = a.NpuKernel(1, 1, 1, 1, 1, 1)
        op.padding = a.NpuPadding(0, 0, 0, 0)
        op.block_config = a.NpuShape3D(2, 2, 16)
        op.rescale = ExplicitScaling(False, [30], [1 << 30])
    elif kind == "dw":
        op = a.NpuConvDepthWiseOperation()
        op.ifm = fm(8, 8, 16, 1, 0x1000)
        op.ofm = fm(8, 8, 16, 1, 0x8000)
        op.kernel = a.NpuKernel(3, 3, 1, 1, 1, 1)
        op.padding = a.NpuPadding(1, 1, 1, 1)
        op.weights = [a.NpuAddressRange(0, 0x100, 160)] + ([a.NpuAddressRange(0, 0x400, 160)] if accel.endswith("512") else [])
        op.biases = [a.NpuAddressRange(0, 0x800, 32)] + ([a.NpuAddressRange(0, 0x900, 32)] if accel.endswith("512") else [])
        op.block_config = a.NpuShape3D(2, 2, 16)
    elif kind == "ew":
        op = a.NpuElementWiseOperation(a.NpuElementWiseOp.ADD)
        op.ifm = fm(8, 8, 16, 1, 0x1000)
        op.ifm2 = fm(8, 8, 16, 1, 0x2000)
        op.ofm = fm(8, 8, 16, 1, 0x8000)
        for f in (op.ifm, op.ifm2, op.ofm):
            f.quantization = a.NpuQuantization(scale_f32=None, zero_point=0)
        op.block_config = a.NpuShape3D(4, 4, 16)
    else:
        op = a.NpuDmaOperation(a.NpuAddressRange(0, 0x1000, 256), a.NpuAddressRange(1, 0x4000, 256))
    return op


def _set_group(V, op, group, tag, accel):
    """make the fields of `group` symbolic on op; returns list of (description, z3 Bool) facts assumed legal"""
    from ethosu.vela import api as a
    from ethosu.vela.operation import ExplicitScaling

    amax = (1 << 40) - 1 if "U65" in accel else (1 << 32) - 1
    iv = lambda n, lo, hi: V.int("%s_%s" % (n, tag), lo, hi)  # noqa
    if group == "ifm_addr":
        ads = [iv("ifm_base%d" % i, 0, amax - 4096) for i in range(2)]
        op.ifm.tiles = op.ifm.tiles._replace(addresses=ads + [0, 0])
    elif group == "ofm_addr":
        ads = [iv("ofm_base%d" % i, 0, amax - 4096) for i in range(2)]
        op.ofm.tiles = op.ofm.tiles._replace(addresses=ads + [0, 0])
    elif group == "weights":
        n = len(op.weights)
        if n == 2 and tag == "2":
            # an operation may carry fewer ranges than the accelerator has cores (e.g. one output channel): the idle core's length must be 0
            n = V.choice("weight_ranges_%s" % tag, [2, 1])
        # the last core's range is symbolic (with 2 cores the first stays as in the template: keeps the elision path count small)
        op.weights = op.weights[:n - 1] + [a.NpuAddressRange(0, iv("w%d_addr" % (n - 1), 0, amax - (1 << 24)), iv("w%d_len" % (n - 1), 0, (1 << 24)))]
    elif group == "biases":
        n = len(op.biases)
        if n == 2 and tag == "2":
            n = V.choice("bias_ranges_%s" % tag, [2, 1])
        op.biases = op.biases[:n - 1] + [a.NpuAddressRange(0, iv("b%d_addr" % (n - 1), 0, amax - (1 << 24)), iv("b%d_len" % (n - 1), 0, (1 << 24)))]
    elif group == "tiles":
        op.ifm.tiles = op.ifm.tiles._replace(height_0=iv("h0", 1, 8), height_1=iv("h1", 1, 8), width_0=iv("w0", 1, 8))
    elif group == "zp":
        op.ifm.quantization = a.NpuQuantization(1.0, iv("ifm_zp", 0, 255))
        op.ofm.quantization = a.NpuQuantization(1.0, iv("ofm_zp", 0, 255))
    elif group == "pad":
        op.padding = a.NpuPadding(iv("pt", 0, 2), iv("pl", 0, 2), iv("pb", 0, 2), iv("pr", 0, 2))
    elif group == "region":
        op.ifm.region = V.choice("ifm_region_%s" % tag, [0, 1, 5, 7])
        op.ofm.region = V.choice("ofm_region_%s" % tag, [1, 2, 7])
    elif group == "depth":
        pass
    elif group == "activation":
        # explicit clamp given in real values; quantisation with and without a scale (a zero point without a scale is legal)
        sc = V.choice("ofm_scale_kind_%s" % tag, [None, 0.5, 1.0])
        op.ofm.quantization = a.NpuQuantization(sc, iv("ofm_zp", 0, 128))
        op.activation = a.NpuActivation(a.NpuActivationOp.NONE_OR_RELU)
        op.activation.min = 0.0
        op.activation.max = V.choice("act_max_%s" % tag, [6.0, 1.0])
    elif group == "ofm_scale":
        op.rescale = ExplicitScaling(False, [iv("shift", 0, 63)], [iv("mult", 0, (1 << 32) - 1)])
    elif group == "kernel":
        # symbolic kernel geometry: the registers are pure arithmetic on these fields (the SHRAM layout derived from the kernel is stubbed
        # to the template's - it is C15's subject)
        k = op.kernel
        k.width, k.height = iv("kw", 1, 16), iv("kh", 1, 16)
        k.stride_x, k.stride_y = iv("sx", 1, 3), iv("sy", 1, 3)
        # dilation and traversal are concrete per path (dilation multiplies the kernel size); the first operation only takes one choice of
        # them (its role is to leave arbitrary values in the registers), the second all
        full = tag == "2"
        k.dilation_x, k.dilation_y = V.choice("dx_%s" % tag, [1, 2] if full else [1]), V.choice("dy_%s" % tag, [1, 2] if full else [2])
        if isinstance(op, a.NpuConv2DOperation):
            op.block_traversal = V.choice("trav_%s" % tag, [a.NpuBlockTraversal.DEPTH_FIRST, a.NpuBlockTraversal.PART_KERNEL_FIRST] if full
                                          else [a.NpuBlockTraversal.DEPTH_FIRST])
    elif group == "ifm_prec":
        T = a.NpuDataType
        full = tag == "2"
        op.ifm.data_type = V.choice("ifm_dt_%s" % tag, [T.UINT8, T.INT8, T.INT16] if full else [T.UINT8, T.INT16])
        op.ifm.layout = V.choice("ifm_layout_%s" % tag, [a.NpuLayout.NHWC, a.NpuLayout.NHCWB16])
        op.ifm_upscale = V.choice("ups_%s" % tag, [a.NpuResamplingMode.NONE, a.NpuResamplingMode.NEAREST, a.NpuResamplingMode.TRANSPOSE] if full
                                  else [a.NpuResamplingMode.NONE, a.NpuResamplingMode.NEAREST])
        if op.ifm_upscale != a.NpuResamplingMode.NONE:
            op.ifm.shape = a.NpuShape3D(4, 4, 16)
            op.ifm.tiles = op.ifm.tiles._replace(height_0=4, height_1=4, width_0=4)
    elif group == "ofm_prec":
        T = a.NpuDataType
        full = tag == "2"
        op.ofm.data_type = V.choice("ofm_dt_%s" % tag, [T.UINT8, T.INT8, T.INT16, T.INT32] if full else [T.UINT8, T.INT16])
        op.ofm.layout = V.choice("ofm_layout_%s" % tag, [a.NpuLayout.NHWC, a.NpuLayout.NHCWB16] if full else [a.NpuLayout.NHWC])
        R = a.NpuRoundingMode
        op.rounding_mode = V.choice("round_%s" % tag, [R.TFL, R.TRUNCATE, R.NATURAL] if full else [R.TFL, R.NATURAL])
    elif group == "shape":
        # symbolic feature-map shape: OFM size registers, IFM depth, default strides of both layouts.  The first operation only leaves
        # arbitrary values in the registers (one layout/type), the second takes every layout/type.
        full = tag == "2"
        lay = V.choice("layout_%s" % tag, [a.NpuLayout.NHWC, a.NpuLayout.NHCWB16] if full else [a.NpuLayout.NHWC])
        dt = V.choice("dt_%s" % tag, [a.NpuDataType.INT8, a.NpuDataType.INT16] if full else [a.NpuDataType.INT8])
        # width * depth appears in the row stride: one of the two is symbolic, the other enumerated (keeps the arithmetic linear)
        if V.choice("symbolic_dim_%s" % tag, ["w", "d"] if full else ["w"]) == "w":
            h, w, d = iv("h", 1, 4096), iv("w", 1, 4096), V.choice("d_%s" % tag, [1, 16, 17, 40] if full else [16])
        else:
            h, w, d = iv("h", 1, 4096), V.choice("w_%s" % tag, [1, 3, 8]), iv("d", 1, 4096)
        for f in (op.ifm, op.ofm):
            f.layout, f.data_type = lay, dt
            f.shape = a.NpuShape3D(h, w, d)
            f.tiles = f.tiles._replace(height_0=h, height_1=h, width_0=w)
    elif group in ("ifm_strides", "ofm_strides"):
        # explicit strides supplied through the API (one feature map per instance: six more elision decisions would square the paths)
        full = tag == "2"
        lay = V.choice("layout_%s" % tag, [a.NpuLayout.NHWC, a.NpuLayout.NHCWB16] if full else [a.NpuLayout.NHWC])
        dt = V.choice("dt_%s" % tag, [a.NpuDataType.INT8, a.NpuDataType.INT16] if full else [a.NpuDataType.INT16])
        f = op.ifm if group == "ifm_strides" else op.ofm
        f.layout, f.data_type = lay, dt
        f.strides = a.NpuShape3D(height=iv("sy", 0, amax), width=iv("sx", 0, amax), depth=iv("sc", 0, amax))
    elif group == "act_kind":
        A = a.NpuActivationOp
        full = tag == "2"
        kind_ = V.choice("act_op_%s" % tag, [A.NONE_OR_RELU, A.TANH, A.SIGMOID, A.TABLE_LOOKUP] if full else [A.NONE_OR_RELU, A.TABLE_LOOKUP])
        op.activation = a.NpuActivation(kind_)
        if kind_ == A.TABLE_LOOKUP:
            op.activation.lookup_table_index = iv("lut_index", 0, 7)
        op.ofm.data_type = V.choice("ofm_dt_%s" % tag, [a.NpuDataType.INT8, a.NpuDataType.INT32, a.NpuDataType.INT16] if full else [a.NpuDataType.INT8])
    elif group == "pool_kind":
        P = a.NpuPoolingOp
        op.sub_op_type = V.choice("pool_op_%s" % tag, [P.MAX, P.AVERAGE, P.REDUCE_SUM])
        op.rescale = None
        op.padding = a.NpuPadding(V.choice("pt_%s" % tag, [0, 1]), 0, 0, 0)
        if op.sub_op_type == P.REDUCE_SUM:
            op.ofm.shape = a.NpuShape3D(8, 8, 1)
            op.ofm.data_type = a.NpuDataType.INT32
        for f in (op.ifm, op.ofm):
            f.quantization = a.NpuQuantization(scale_f32=None, zero_point=0)
    elif group == "ew_kind":
        E = a.NpuElementWiseOp
        full = tag == "2"
        op.sub_op_type = V.choice("ew_op_%s" % tag, [E.ADD, E.SUB, E.MUL, E.MIN, E.MAX, E.SHR, E.SHL, E.ABS, E.LRELU, E.CLZ] if full else [E.ADD, E.MIN, E.ABS])
        if op.sub_op_type in (E.ABS, E.LRELU, E.CLZ):
            op.ifm2 = None
        if op.sub_op_type in (E.ABS, E.LRELU):
            op.ofm.quantization = a.NpuQuantization(scale_f32=1.0, zero_point=0)
        if op.sub_op_type in (E.ADD, E.SUB, E.MUL):
            op.rescale = (iv("mult", 1, (1 << 32) - 1), iv("shift", 0, 63))
    elif group == "ew_rescale":
        op.sub_op_type = V.choice("ew_op_%s" % tag, [a.NpuElementWiseOp.ADD, a.NpuElementWiseOp.MUL])
        op.rescale = (iv("mult", 1, (1 << 32) - 1), iv("shift", 0, 63))
    elif group == "ifm2_addr":
        ads = [iv("ifm2_base%d" % i, 0, amax - 4096) for i in range(2)]
        op.ifm2.tiles = op.ifm2.tiles._replace(addresses=ads + [0, 0])
        op.ifm2.region = V.choice("ifm2_region_%s" % tag, [0, 1, 6])
        op.ifm2.quantization = a.NpuQuantization(None, iv("ifm2_zp", 0, 255))
    elif group == "broadcast":
        full = tag == "2"
        dims = [V.choice("bc_%s_%s" % (n, tag), [8, 1] if full or n == "h" else [8]) for n in ("h", "w")]
        dep = V.choice("bc_d_%s" % tag, [16, 1] if full else [16])
        op.ifm2.shape = a.NpuShape3D(dims[0], dims[1], dep)
        op.ifm2.tiles = op.ifm2.tiles._replace(height_0=dims[0], height_1=dims[0], width_0=dims[1])
        op.reversed_operands = V.choice("rev_%s" % tag, [False, True])
    elif group == "scalar":
        sc = V.choice("scalar_%s" % tag, [None, 0.0, 3.0, 100.0])
        op.ifm2_scalar = sc
        zp = iv("ifm2_zp", 0, 255)
        op.ifm2.quantization = a.NpuQuantization(None, zp)
        if sc is not None:
            V.assume(zp + int(sc) <= 255)
        op.reversed_operands = V.choice("rev_%s" % tag, [False, True])
    elif group == "dma_mode":
        op.channel = V.choice("chan_%s" % tag, [0, 1])
        op.mode = V.choice("mode_%s" % tag, [0, 1])
    elif group == "dma":
        # regions: 0/1 = external memory, 259 = BASE_PTR_INDEX_MEM2MEM (the NPU's internal SHRAM)
        sreg = V.choice("src_region_%s" % tag, [0, 1, 259])
        dreg = V.choice("dst_region_%s" % tag, [1, 259])
        internal = sreg == 259 or dreg == 259
        # external-to-external transfers may be as long as the address space allows (more than 32 bits on U65)
        ln = iv("len", 1, 4096 if internal else amax // 4)
        return a.NpuDmaOperation(a.NpuAddressRange(sreg, iv("src", 0, 8192 if sreg == 259 else amax // 4), ln),
                                 a.NpuAddressRange(dreg, iv("dst", 0, 8192 if dreg == 259 else amax // 4), ln))
    return op


_EW_CODE = {"MUL": 0, "ADD": 1, "SUB": 2, "MIN": 3, "MAX": 4, "LRELU": 5, "ABS": 6, "CLZ": 7, "SHR": 8, "SHL": 9}
_POOL_CODE = {"MAX": 0, "AVERAGE": 1, "REDUCE_SUM": 2}
_ROUND_CODE = {"TFL": 0, "TRUNCATE": 1, "NATURAL": 2}
_UPS_CODE = {"NONE": 0, "NEAREST": 1, "TRANSPOSE": 2}
_UNARY = ("ABS", "LRELU", "CLZ")


def _zmax(*xs):
    r = L(xs[0])
    for x in xs[1:]:
        r = z3.If(L(x) > r, L(x), r)
    return r


def _zmin(*xs):
    r = L(xs[0])
    for x in xs[1:]:
        r = z3.If(L(x) < r, L(x), r)
    return r


def _exp_strides(e, pfx, f):
    """reference STRIDE_C/Y/X: explicit strides verbatim, else dense packing of the layout (restated from the Ethos-U addressing rule:
    NHWC element (y,x,c) at y*W*C + x*C + c elements; NHCWB16 at y*W*roundup(C,16) + (c/16)*W*16 + x*16 + c%16 elements)"""
    from ethosu.vela import api as a

    es = f.data_type.size_in_bits() // 8
    if f.strides is not None:
        sc, sy, sx = L(f.strides.depth), L(f.strides.height), L(f.strides.width)
    elif f.layout == a.NpuLayout.NHWC:
        sc, sx, sy = L(es), L(f.shape.depth) * es, L(f.shape.width) * L(f.shape.depth) * es
    else:
        sx, sc = L(16 * es), L(f.shape.width) * 16 * es
        sy = L(f.shape.width) * (((L(f.shape.depth) + 15) / 16) * 16) * es
    e["NPU_SET_%s_STRIDE_C" % pfx], e["NPU_SET_%s_STRIDE_Y" % pfx], e["NPU_SET_%s_STRIDE_X" % pfx] = sc, sy, sx


def _global_scale(op):
    from ethosu.vela import api as a
    from ethosu.vela.operation import ExplicitScaling

    if isinstance(op, a.NpuPoolingOperation):
        gs = op.sub_op_type.name in ("AVERAGE", "REDUCE_SUM") and all(isinstance(p, int) and p == 0 for p in op.padding)
        if isinstance(op.rescale, ExplicitScaling):
            gs = not op.rescale.per_channel
        return gs
    if isinstance(op, a.NpuElementWiseOperation):
        return op.sub_op_type.name in ("ADD", "SUB", "MUL", "LRELU", "ABS")
    return False


def _expected(op, accel):
    """reference register values for the (direct) fields of an operation: name -> z3 Int of the full register value
    (cmd1: parameter * 2^32 + payload; cmd0: signed values are compared modulo 2^16)"""
    from ethosu.vela import api as a

    e = {}
    if isinstance(op, a.NpuDmaOperation):
        e["NPU_SET_DMA0_SRC_REGION"] = L(op.src.region)
        e["NPU_SET_DMA0_SRC"] = L(op.src.address)
        e["NPU_SET_DMA0_DST_REGION"] = L(op.dest.region)
        e["NPU_SET_DMA0_DST"] = L(op.dest.address)
        e["NPU_SET_DMA0_LEN"] = L(op.src.length)
        e["@param"] = L(op.channel) * 16 + L(op.mode)
        return e
    is_ew = isinstance(op, a.NpuElementWiseOperation)
    has_scalar = is_ew and op.ifm2_scalar is not None
    fms = [("IFM", op.ifm), ("OFM", op.ofm)]
    if is_ew and op.ifm2 is not None and op.sub_op_type.name not in _UNARY and not has_scalar:
        fms.append(("IFM2", op.ifm2))
    for pfx, f in fms:
        e["NPU_SET_%s_REGION" % pfx] = L(f.region)
        for i in range(4):
            e["NPU_SET_%s_BASE%d" % (pfx, i)] = L(f.tiles.addresses[i])
        e["NPU_SET_%s_HEIGHT0_M1" % pfx] = L(f.tiles.height_0) - 1
        e["NPU_SET_%s_HEIGHT1_M1" % pfx] = L(f.tiles.height_1) - 1
        e["NPU_SET_%s_WIDTH0_M1" % pfx] = L(f.tiles.width_0) - 1
        e["NPU_SET_%s_ZERO_POINT" % pfx] = L(f.quantization.zero_point)
        _exp_strides(e, pfx, f)
    e["NPU_SET_IFM_DEPTH_M1"] = L(op.ifm.shape.depth) - 1
    e["NPU_SET_OFM_HEIGHT_M1"] = L(op.ofm.shape.height) - 1
    e["NPU_SET_OFM_WIDTH_M1"] = L(op.ofm.shape.width) - 1
    e["NPU_SET_OFM_DEPTH_M1"] = L(op.ofm.shape.depth) - 1
    e["NPU_SET_IFM_UPSCALE"] = L(_UPS_CODE[op.ifm_upscale.name])
    # ---- precision words
    gs = _global_scale(op)

    def prec_index(dt):
        return {8: 0, 16: 1, 32: 2}[dt.size_in_bits()]

    e["NPU_SET_IFM_PRECISION"] = L((1 if op.ifm.data_type.is_signed() else 0) + 4 * prec_index(op.ifm.data_type)
                                   + (64 if op.ifm.layout == a.NpuLayout.NHCWB16 else 0))  # bits 8..9 (operand to scale): 0 without advanced scaling
    e["NPU_SET_OFM_PRECISION"] = L((1 if op.ofm.data_type.is_signed() else 0) + 2 * prec_index(op.ofm.data_type)
                                   + (64 if op.ofm.layout == a.NpuLayout.NHCWB16 else 0) + (256 if gs else 0)
                                   + 16384 * _ROUND_CODE[op.rounding_mode.name])
    if op.padding is not None:
        e["NPU_SET_IFM_PAD_TOP"] = L(op.padding.top)
        e["NPU_SET_IFM_PAD_LEFT"] = L(op.padding.left)
        e["NPU_SET_IFM_PAD_BOTTOM"] = L(op.padding.bottom)
        e["NPU_SET_IFM_PAD_RIGHT"] = L(op.padding.right)
    k = op.kernel
    if not is_ew:
        e["NPU_SET_KERNEL_HEIGHT_M1"] = L(k.dilation_y) * (L(k.height) - 1)
        e["NPU_SET_KERNEL_WIDTH_M1"] = L(k.dilation_x) * (L(k.width) - 1)
        pk = isinstance(op, a.NpuConv2DOperation) and op.block_traversal == a.NpuBlockTraversal.PART_KERNEL_FIRST
        sx, sy = L(k.stride_x) - 1, L(k.stride_y) - 1
        # KERNEL_STRIDE: bit0 stride_x lsb, bit1 stride_y lsb, bit2 part-kernel-first, bit3/4 dilation x/y - 1, bits 6..8 / 9..11 stride x/y msbs
        e["NPU_SET_KERNEL_STRIDE"] = (sx % 2) + 2 * (sy % 2) + (4 if pk else 0) + 8 * (L(k.dilation_x) - 1) + 16 * (L(k.dilation_y) - 1) \
            + 64 * (sx / 2) + 512 * (sy / 2)
    e["NPU_SET_OFM_BLK_HEIGHT_M1"] = L(op.block_config.height) - 1
    e["NPU_SET_OFM_BLK_WIDTH_M1"] = L(op.block_config.width) - 1
    e["NPU_SET_OFM_BLK_DEPTH_M1"] = L(op.block_config.depth) - 1
    ncores = 2 if accel.endswith("512") else 1
    if op.weights:
        e["NPU_SET_WEIGHT_REGION"] = L(op.weights[0].region)
        for c, (bn, ln) in enumerate((("NPU_SET_WEIGHT_BASE", "NPU_SET_WEIGHT_LENGTH"), ("NPU_SET_WEIGHT1_BASE", "NPU_SET_WEIGHT1_LENGTH"))):
            if c < len(op.weights):
                e[bn], e[ln] = L(op.weights[c].address), L(op.weights[c].length)
            elif c < ncores:
                e[bn], e[ln] = L(op.weights[0].address), L(0)
    if op.biases:
        e["NPU_SET_SCALE_REGION"] = L(op.biases[0].region)
        for c, (bn, ln) in enumerate((("NPU_SET_SCALE_BASE", "NPU_SET_SCALE_LENGTH"), ("NPU_SET_SCALE1_BASE", "NPU_SET_SCALE1_LENGTH"))):
            if c < len(op.biases):
                e[bn], e[ln] = L(op.biases[c].address), L(op.biases[c].length)
            elif c < ncores:
                e[bn], e[ln] = L(op.biases[0].address), L(0)
    # ---- activation: function code and clamp range
    act = op.activation
    dt = op.ofm.data_type
    dmin, dmax = dt.min_value(), dt.max_value()
    q = op.ofm.quantization
    sc = 1.0 if q is None or q.scale_f32 is None else q.scale_f32
    lo = L(q.zero_point) + int(round(act.min / sc)) if act is not None and act.min is not None else L(dmin)
    hi = L(q.zero_point) + int(round(act.max / sc)) if act is not None and act.max is not None else L(dmax)
    lo, hi = _zmax(lo, -32768, dmin), _zmin(hi, 32767, dmax)
    code = L(0)
    if act is not None:
        nm = act.op_type.name
        if nm == "TABLE_LOOKUP":
            code = 16 + L(act.lookup_table_index)
            if dt == a.NpuDataType.INT32:
                code = code + 3 * 4096  # the table is indexed with the int8 range of the 32-bit value
                lo, hi = _zmax(lo, -128), _zmin(hi, 127)
        else:
            code = L({"NONE_OR_RELU": 0, "TANH": 3, "SIGMOID": 4}[nm])
    e["NPU_SET_ACTIVATION"] = code
    e["NPU_SET_ACTIVATION_MIN"] = lo
    e["NPU_SET_ACTIVATION_MAX"] = hi
    # ---- scaling registers given explicitly
    if isinstance(op, a.NpuPoolingOperation):
        from ethosu.vela.operation import ExplicitScaling

        if isinstance(op.rescale, ExplicitScaling):
            e["NPU_SET_OFM_SCALE"] = L(op.rescale.shift[0]) * (1 << 32) + L(op.rescale.multiplier[0])
        elif gs and op.rescale is None and (op.ifm.quantization.scale_f32 is None or op.ofm.quantization.scale_f32 is None) \
                and (act is None or act.op_type.name not in ("TANH", "SIGMOID")):
            e["NPU_SET_OFM_SCALE"] = L(1)
        e["@param"] = L(_POOL_CODE[op.sub_op_type.name])
    elif is_ew:
        nm = op.sub_op_type.name
        e["@param"] = L(_EW_CODE[nm])
        unscaled = op.ofm.quantization is None or op.ofm.quantization.scale_f32 is None
        if nm in ("ADD", "SUB", "MUL"):
            if op.rescale is not None:
                e["NPU_SET_OFM_SCALE"] = L(op.rescale[1]) * (1 << 32) + L(op.rescale[0])
            elif unscaled:
                e["NPU_SET_OFM_SCALE"] = L(1)
            if nm != "MUL" and (op.rescale is not None or unscaled):
                e["NPU_SET_OPA_SCALE"] = L(1)
                e["NPU_SET_OPB_SCALE"] = L(1)
        elif nm in ("LRELU", "ABS"):
            if op.ofm.quantization.scale_f32 == 1.0:
                e["NPU_SET_OFM_SCALE"] = L(30 * (1 << 32) + (1 << 30))  # 1.0 = 2^30 * 2^-30
        else:
            e["NPU_SET_OFM_SCALE"] = L(1)
        if nm not in _UNARY:
            f2 = op.ifm2
            e["NPU_SET_IFM2_ZERO_POINT"] = L(f2.quantization.zero_point)
            e["NPU_SET_IFM2_PRECISION"] = L((1 if f2.data_type.is_signed() else 0) + 4 * prec_index(f2.data_type)
                                            + (64 if f2.layout == a.NpuLayout.NHCWB16 else 0))
            bc = 64 if op.reversed_operands else 0
            if has_scalar:
                bc += 128
                e["NPU_SET_IFM2_SCALAR"] = L(f2.quantization.zero_point) + int(round(op.ifm2_scalar))
            else:
                bc += (1 if f2.shape.height != op.ifm.shape.height else 0) + (2 if f2.shape.width != op.ifm.shape.width else 0) \
                    + (4 if f2.shape.depth != op.ifm.shape.depth else 0)
            e["NPU_SET_IFM2_BROADCAST"] = L(bc)
    else:
        e["@param"] = L(0)
    return e


def _decode(words, nops):
    """reference decoder: returns list of (op word name, register file snapshot, waits seen before the op), and trailing info"""
    from ethosu.vela.ethos_u55_regs.ethos_u55_regs import cmd0, cmd1

    regs = {}
    ops = []
    waits = []
    i = 0
    bad = []
    stop_count = 0
    while i < len(words):
        w = words[i]
        lo = z3.simplify(L(w) % 65536)
        if not z3.is_int_value(lo):
            bad.append("command code of word %d is not concrete" % i)
            break
        code = lo.as_long()
        param = L(w) / 65536
        if code & 0x4000:
            name = cmd1(code & 0x3FF).name
            if i + 1 >= len(words):
                bad.append("truncated cmd1")
                break
            payload = L(words[i + 1])
            regs[name] = (param, payload)
            i += 2
            continue
        name = cmd0(code & 0x3FF).name
        if name.startswith("NPU_OP_"):
            if name in ("NPU_OP_KERNEL_WAIT", "NPU_OP_DMA_WAIT"):
                waits.append(name)
            elif name == "NPU_OP_STOP":
                stop_count += 1
                if i != len(words) - 1:
                    bad.append("STOP is not the last word")
            else:
                ops.append((name, dict(regs), list(waits), param))
                waits = []
        else:
            regs[name] = (param, None)
        i += 1
    return ops, stop_count, bad, waits


def pair(V, accel, kind, group, light=False):
    import ethosu.vela.register_command_stream_generator as g
    import ethosu.vela.register_command_stream_util as u
    from ethosu.vela import api as a
    from harness.c04 import arch_for

    arch = arch_for(accel)
    op1 = _set_group(V, _template(accel, kind), group, "1", accel)
    op2 = _set_group(V, _template(accel, kind), group, "2", accel)
    saved = g.calc_blockdep
    g.calc_blockdep = lambda *a_: 0
    saved_acc = g.get_op_memory_accesses
    saved_abc = g.get_arch_block_config
    if light or group in ("tiles", "shape", "ifm_strides", "ofm_strides"):
        # symbolic tile splits / shapes make the per-tile address ranges (and with them the wait analysis) fork heavily; waits are examined by
        # the other groups and by C04, so these groups run with empty access sets
        from ethosu.vela.range_set import MemoryAccessSet

        g.get_op_memory_accesses = lambda op, arch_: MemoryAccessSet()
    if group in ("kernel", "shape"):
        # the SHRAM layout derived from kernel/shape is C15's subject: use the template's (concrete) block configuration result
        tmpl = _template(accel, kind)
        fixed = saved_abc(tmpl, getattr(tmpl, "block_traversal", a.NpuBlockTraversal.DEPTH_FIRST), arch)
        g.get_arch_block_config = lambda *a_, **k_: fixed
    u_cache = getattr(__import__("ethosu.vela.range_set", fromlist=["x"]).MemoryAccessSet.conflicts, "cache_clear", None)
    if u_cache:
        u_cache()
    err = None
    try:
        with core.shims(*_shims()):
            words = g.generate_register_command_stream([op1, op2], a.NpuAccelerator[accel])  # the public generator entry point
    except (g.ByteAlignmentError, g.ByteSizeError) as e:
        err = e
    finally:
        g.calc_blockdep = saved
        g.get_op_memory_accesses = saved_acc
        g.get_arch_block_config = saved_abc
    # ---- hardware alignment rules for the symbolic group (everything else in the template is aligned)
    viol = []
    for op in (op1, op2):
        if isinstance(op, a.NpuDmaOperation):
            if "U65" in accel:  # only internal (SHRAM) addresses must be aligned; the length too if the destination is internal
                if op.src.region == 259:
                    viol += [L(op.src.address) % 16 != 0]
                if op.dest.region == 259:
                    viol += [L(op.dest.address) % 16 != 0, L(op.src.length) % 16 != 0]
            else:
                viol += [L(op.src.address) % 16 != 0, L(op.dest.address) % 16 != 0, L(op.src.length) % 16 != 0]
        else:
            for wr in op.weights:
                viol += [L(wr.address) % 16 != 0, L(wr.length) % 16 != 0]
            for br in op.biases:
                viol += [L(br.length) % 16 != 0]
            for f in (op.ifm, op.ofm, getattr(op, "ifm2", None)):
                if f is None or (f is op.ifm2 and op.ifm2_scalar is not None):
                    continue
                es = f.data_type.size_in_bits() // 8
                b16 = f.layout == a.NpuLayout.NHCWB16
                for ad in f.tiles.addresses:  # feature-map bases: element aligned, 16 bytes for the bricked layout
                    if not isinstance(ad, int) or ad % (16 if b16 else es):
                        viol += [L(ad) % (16 if b16 else es) != 0]
                if f.strides is not None:  # explicit strides: whole bricks (C, Y) for NHCWB16, whole elements (Y, X) for NHWC
                    chk = [(f.strides.depth, 16), (f.strides.height, 16)] if b16 else [(f.strides.height, es), (f.strides.width, es)]
                    viol += [L(v) % m != 0 for v, m in chk]
    broken = z3.Or(*viol) if viol else z3.BoolVal(False)
    if err is not None:
        return [("alignment/length error only when a hardware alignment rule is broken", broken)]
    cl = [("an operation breaking a hardware alignment rule is rejected", z3.Not(broken))]
    ops, stops, bad, trailing_waits = _decode(words, 2)
    for b in bad:
        cl.append((b, False))
    cl.append(("exactly one STOP, as the last word", stops == 1))
    cl.append(("one NPU_OP word per operation", len(ops) == 2))
    cl.append(("no wait after the last operation", trailing_waits == []))
    if len(ops) != 2:
        return cl
    for idx, (op, (name, regs, waits, opparam)) in enumerate(zip((op1, op2), ops)):
        want_name = {"conv": "NPU_OP_CONV", "dw": "NPU_OP_DEPTHWISE", "pool": "NPU_OP_POOL", "ew": "NPU_OP_ELEMENTWISE", "dma": "NPU_OP_DMA_START"}[kind]
        cl.append(("op %d: operation word kind" % idx, name == want_name))
        exp = _expected(op, accel)
        cl.append(("op %d: operation word parameter (sub-operation / DMA channel and mode)" % idx, opparam == exp.pop("@param")))
        for reg, val in sorted(exp.items()):
            if reg not in regs:
                cl.append(("op %d: register %s was never written" % (idx, reg), False))
                continue
            param, payload = regs[reg]
            if payload is None:
                cl.append(("op %d: %s holds the operation's value (no truncation; negative values as 16-bit two's complement)" % (idx, reg),
                           z3.And(param == z3.If(val < 0, val + 65536, val), val >= -32768, val < 65536)))
            else:
                cl.append(("op %d: %s holds the operation's value incl. parameter bits (no truncation)" % (idx, reg),
                           z3.And(payload == val % (1 << 32), param == val / (1 << 32), payload >= 0, payload < (1 << 32), param >= 0, param < 65536)))
    return cl


def waits(V, **params):
    """KERNEL_WAIT / DMA_WAIT words precede the operation they guard: the generator's operation loop on op-kind sequences over an arbitrary
    conflict relation, checked against the two-queue hardware monitor (harness/c04.py waits; registered here for sequences of three and four
    operations, which the two-operation `pair` streams cannot express)"""
    from harness import c04

    return c04.waits(V, **params)


def shram_writes(V, **params):
    """waits precede the operation they guard: the wait analysis only sees the SHRAM bytes a kernel operation DECLARES to write; they must
    cover what its block configuration's layout really uses, e.g. the last two banks on the 16-bank parts (harness/c04.py shram_writes)"""
    from harness import c04

    return c04.shram_writes(V, **params)


def layout_kernel(V, **params):
    """block configuration and SHRAM layout of the input operation: the layout registers are computed from the operation's OWN kernel
    (harness/c15.py generator_kernel)"""
    from harness import c15

    return c15.generator_kernel(V, **params)


def layout_args(V, **params):
    """... and from the operation's own quantisation, operand kind, activation and precision (harness/c15.py generator_args): `scaled` selects the
    accumulator format register"""
    from harness import c15

    return c15.generator_args(V, **params)


FUNCS = {"layout_args": layout_args, "pair": pair, "waits": waits, "shram_writes": shram_writes, "layout_kernel": layout_kernel}


def instances(tier, seed):
    out = []
    from harness import c04

    for accel in ("Ethos_U55_128", "Ethos_U65_512"):
        out.append(dict(key="layout_kernel/%s" % accel, fn="layout_kernel", params=dict(accel=accel)))
        out.append(dict(key="layout_args/%s" % accel, fn="layout_args", params=dict(accel=accel)))
    for inst in c04.instances(tier, seed):
        if inst["fn"] == "shram_writes":
            out.append(dict(key=inst["key"], fn="shram_writes", params=inst["params"]))
    conv_groups = ["ifm_addr", "ofm_addr", "weights", "biases", "tiles", "zp", "pad", "region", "activation", "kernel", "ifm_prec", "ofm_prec", "shape",
                   "ifm_strides", "ofm_strides", "act_kind"]
    for accel in ("Ethos_U55_128", "Ethos_U65_512"):
        for gname in conv_groups:
            out.append(dict(key="pair/%s/conv/%s" % (accel, gname), fn="pair", params=dict(accel=accel, kind="conv", group=gname), weight=100))
        for gname in ("kernel", "zp"):
            out.append(dict(key="pair/%s/dw/%s" % (accel, gname), fn="pair", params=dict(accel=accel, kind="dw", group=gname), weight=100))
        for gname in ("ofm_scale", "ifm_addr", "zp", "pool_kind", "kernel"):
            out.append(dict(key="pair/%s/pool/%s" % (accel, gname), fn="pair", params=dict(accel=accel, kind="pool", group=gname), weight=100))
        for gname in ("ew_kind", "ew_rescale", "ifm2_addr", "broadcast", "scalar", "ofm_prec"):
            out.append(dict(key="pair/%s/ew/%s" % (accel, gname), fn="pair", params=dict(accel=accel, kind="ew", group=gname), weight=100))
        for gname in ("dma", "dma_mode"):
            out.append(dict(key="pair/%s/dma/%s" % (accel, gname), fn="pair", params=dict(accel=accel, kind="dma", group=gname), weight=100))
    import itertools

    for accel in ("Ethos_U55_128", "Ethos_U65_256"):
        for n in (3, 4):
            for seq in itertools.product("DK", repeat=n):
                out.append(dict(key="waits/%s/%s" % (accel, "".join(seq)), fn="waits", params=dict(seq="".join(seq), accel=accel), weight=10))
    return out
