"""C04 - conflicting NPU/DMA accesses are separated by a wait (or block dependency).

Layer 1  `waits`: the real generate_command_stream() loop (get_wait_dependency, generate_cmd_waits,
         generate_operation_code, emitter) over every op-kind sequence up to N with an ARBITRARY conflict
         relation (one free Boolean per op pair).  The emitted words are decoded by a reference monitor of the
         two-queue hardware model of the property.
Layer 1b `wait_step`: one call of get_wait_dependency from an arbitrary pre-state (inductive simulation step).
Layer 2  `rangeset` / `access`: conflict detection == byte overlap on symbolic address ranges.
Layer 3  `blockdep`: calc_blockdep range and the SHRAM lookup-table hazard (previous kernel reads a table the current kernel overwrites).
"""
import itertools

import z3

from symx import core
from symx.core import SBool, SInt, L, B

EXPLANATION = ("C04: waits over all op-kind histories up to the bound with a free conflict relation; RangeSet/"
               "MemoryAccessSet conflict detection against a byte-overlap oracle; calc_blockdep sanity lemmas.")

BOUNDS = {
    "quick": {"waits": "all DMA/kernel sequences of length 1..6, U55 (1 outstanding DMA) and U65 (2), 2 outstanding kernels; "
                       "conflict relation: free Boolean per unordered op pair",
              "wait_step": "arbitrary outstanding lists (0..max per queue), one new op, free conflict Booleans",
              "rangeset": "0..3 ranges per set with at most 4 in total, unbounded integer endpoints, both | and |= construction", "access": "2 regions, <=2 ranges per direction",
              "blockdep": "grid of small feature-map / block shapes, symbolic base addresses"},
    "thorough": {"waits": "as quick but length 1..9", "rangeset": "0..3 ranges per set (all 16 size pairs)"},
}
ASSUMPTIONS = [
    "hardware model (from the property statement): two in-order queues (DMA, kernel); NPU_OP_KERNEL_WAIT k / NPU_OP_DMA_WAIT k "
    "return when at most k operations of that queue are still outstanding; an operation is issued only when its own queue has "
    "a free slot (max_outstanding_dma / max_outstanding_kernels), which implies the oldest of a full queue has completed",
    "kernel<->kernel ordering is BLOCKDEP's job (layer 3); DMA<->DMA is in order on a single channel",
    "layer 1 replaces the per-op register generation, calc_blockdep and check_mem_limits by no-op stubs: they do not influence waits",
]
OUTSIDE = ["whether a non-zero BLOCKDEP value is a *safe* overlap under the NPU block pipeline timing (no timing spec offline)",
           "streams of compiled networks (no end-to-end compilation in this technique)"]
SHIMS = ["register_command_stream_generator.{get_dma_memory_accesses,get_op_memory_accesses} -> stub access sets whose "
         "conflicts() returns a free z3 Bool per op pair", "range_set/register_command_stream_util: min,max -> ite shims"]


def ENCODED():
    import ethosu.vela.register_command_stream_generator as g
    import ethosu.vela.register_command_stream_util as u
    import ethosu.vela.range_set as rs

    return [u.get_wait_dependency, g.generate_command_stream, g.generate_cmd_waits, g.generate_operation_code,
            g.CommandStreamEmitter.cmd_wait, g.CommandStreamEmitter.cmd_do_operation, rs.RangeSet.intersects,
            rs.RangeSet.__or__, rs.RangeSet.__ior__, rs.MemoryRangeSet.intersects, rs.MemoryRangeSet.__ior__,
            rs.MemoryAccessSet.add, rs.MemoryAccessSet.conflicts, u.get_dma_memory_accesses, u.memory_range_set,
            u.calc_blockdep, u.range_lists_overlap, u.ranges_overlap, u.get_ifm_ofm_block_depth, u.get_first_job_input_volume, u.get_address_ranges, u.get_offset_block_coords, u.get_address_ranges_for_area, u.get_h_ranges, u.get_address_range, u.coords_intersect, u.intersects,
            __import__("ethosu.vela.architecture_features", fromlist=["x"]).ArchitectureFeatures.get_ifm_block_size, u.get_op_memory_accesses, u.to_kernel, u.to_npu_kernel]


# ---------------------------------------------------------------------------------------------- layer 1


class _Acc:
    def __init__(self, i, M):
        self.i, self.M = i, M

    def conflicts(self, o):
        a, b = min(self.i, o.i), max(self.i, o.i)
        return self.M[(a, b)]


def _arch(accel):
    from ethosu.vela.architecture_features import create_default_arch, Accelerator

    return create_default_arch(Accelerator[accel])


_ARCH = {}


def arch_for(accel):
    if accel not in _ARCH:
        _ARCH[accel] = _arch(accel)
    return _ARCH[accel]


def waits(V, seq, accel):
    import ethosu.vela.register_command_stream_generator as g
    from ethosu.vela.api import NpuDmaOperation, NpuAddressRange, NpuConv2DOperation
    from ethosu.vela.ethos_u55_regs.ethos_u55_regs import cmd0

    arch = arch_for(accel)
    n = len(seq)
    M = {(i, j): V.bool("c_%d_%d" % (i, j)) for i in range(n) for j in range(i + 1, n)}
    ops, acc = [], {}
    for i, k in enumerate(seq):
        if k == "D":
            op = NpuDmaOperation(NpuAddressRange(0, 0, 16), NpuAddressRange(1, 0, 16))
        else:
            op = NpuConv2DOperation()
        ops.append(op)
        acc[id(op)] = _Acc(i, M)
    saved = {k: g.__dict__[k] for k in ("get_dma_memory_accesses", "get_op_memory_accesses", "check_mem_limits",
                                        "generate_registers_for_op", "calc_blockdep")}
    try:
        g.get_dma_memory_accesses = lambda op: acc[id(op)]
        g.get_op_memory_accesses = lambda op, arch: acc[id(op)]
        g.check_mem_limits = lambda *a: None
        g.generate_registers_for_op = lambda *a: None
        g.calc_blockdep = lambda *a: 0
        words = g.generate_command_stream(ops, arch, False, {})
    finally:
        g.__dict__.update(saved)
    # ---- reference monitor over the emitted words
    max_dma = 2 if accel.startswith("Ethos_U65") else 1  # from the property: U55 one outstanding DMA, U65 two
    max_k = 2
    fd, fk = [], []  # in flight, oldest first
    claims = []
    idx = 0
    stops = 0
    for w in words:
        code = w & 0xFFFF
        param = w >> 16
        if code & 0x4000:
            return [("no cmd1 expected in this harness", False)]
        c = code & 0x3FF
        if c == cmd0.NPU_OP_KERNEL_WAIT.value:
            k = param & 0xF
            fk = fk[len(fk) - k:] if k > 0 else []
        elif c == cmd0.NPU_OP_DMA_WAIT.value:
            k = param & 0xF
            fd = fd[len(fd) - k:] if k > 0 else []
        elif c in (cmd0.NPU_OP_DMA_START.value, cmd0.NPU_OP_CONV.value):
            isd = c == cmd0.NPU_OP_DMA_START.value
            claims.append(("op %d kind matches" % idx, (seq[idx] == "D") == isd))
            if isd:
                if len(fd) >= max_dma:
                    fd = fd[1:]
                other = fk
            else:
                if len(fk) >= max_k:
                    fk = fk[1:]
                other = fd
            for j in other:
                claims.append(("op %d issued while conflicting op %d may be in flight" % (idx, j),
                               z3.Not(B(M[(min(idx, j), max(idx, j))]))))
            (fd if isd else fk).append(idx)
            idx += 1
        elif c == cmd0.NPU_OP_STOP.value:
            stops += 1
        # other cmd0 (BLOCKDEP, PARALLEL_MODE) are register writes, irrelevant here
    claims.append(("every op emitted once", idx == n))
    claims.append(("exactly one STOP at the end", stops == 1 and (words[-1] & 0x3FF) == cmd0.NPU_OP_STOP.value))
    return claims


def wait_step(V, ndma, nk, kind, accel):
    """one call from an arbitrary pre-state.  Invariant I: the hardware's possibly-in-flight set of each queue is a
    suffix-closed subset of the tracked outstanding list (everything older has completed).  Step claim: after the
    returned waits are applied and the op is issued, no conflicting op of the other queue can be in flight, and I
    holds again for the updated lists."""
    import ethosu.vela.register_command_stream_util as u
    from ethosu.vela.api import NpuDmaOperation, NpuAddressRange, NpuConv2DOperation

    arch = arch_for(accel)
    max_dma = 2 if accel.startswith("Ethos_U65") else 1
    dma_ops = [NpuDmaOperation(NpuAddressRange(0, 0, 16), NpuAddressRange(1, 0, 16)) for _ in range(ndma)]
    k_ops = [NpuConv2DOperation() for _ in range(nk)]
    new = NpuDmaOperation(NpuAddressRange(0, 0, 16), NpuAddressRange(1, 0, 16)) if kind == "D" else NpuConv2DOperation()
    allops = dma_ops + k_ops + [new]
    index = {id(o): i for i, o in enumerate(allops)}
    n = len(allops)
    M = {(i, j): V.bool("c_%d_%d" % (i, j)) for i in range(n) for j in range(i + 1, n)}
    acc = {o: _Acc(index[id(o)], M) for o in allops}
    # arbitrary hardware state consistent with I: the in-flight DMA ops are the youngest fd_n of the list, etc.
    fd_n = V.int("inflight_dma", 0, ndma).small_value(0, ndma)
    fk_n = V.int("inflight_k", 0, nk).small_value(0, nk)
    fd = dma_ops[ndma - fd_n:]
    fk = k_ops[nk - fk_n:]
    od, ok = list(dma_ops), list(k_ops)
    w = u.get_wait_dependency(arch, new, acc, od, ok)
    claims = [("wait counts are small ints", isinstance(w.npu, int) and isinstance(w.dma, int))]
    if w.npu >= 0:
        fk = fk[len(fk) - w.npu:] if w.npu > 0 else []
    if w.dma >= 0:
        fd = fd[len(fd) - w.dma:] if w.dma > 0 else []
    if kind == "D":
        if len(fd) >= max_dma:
            fd = fd[1:]
        other = fk
    else:
        if len(fk) >= 2:
            fk = fk[1:]
        other = fd
    for o in other:
        i, j = index[id(o)], index[id(new)]
        claims.append(("conflicting op still in flight", z3.Not(B(M[(min(i, j), max(i, j))]))))
    (fd if kind == "D" else fk).append(new)

    def is_suffix(sub, full):
        return len(sub) <= len(full) and all(a is b for a, b in zip(sub, full[len(full) - len(sub):])) if sub else True

    claims.append(("invariant re-established (dma)", is_suffix(fd, od)))
    claims.append(("invariant re-established (kernel)", is_suffix(fk, ok)))
    claims.append(("tracked lists bounded", len(od) <= arch.max_outstanding_dma and len(ok) <= arch.max_outstanding_kernels))
    return claims


# ---------------------------------------------------------------------------------------------- layer 2


def _ranges(V, prefix, n):
    out = []
    for i in range(n):
        s = V.int("%s%d_s" % (prefix, i))
        e = V.int("%s%d_e" % (prefix, i))
        V.assume(s < e)
        out.append((s, e))
    return out


def _overlap(a, b):
    return z3.Or(*[z3.And(z3.If(L(x[0]) > L(y[0]), L(x[0]), L(y[0])) < z3.If(L(x[1]) < L(y[1]), L(x[1]), L(y[1])))
                   for x in a for y in b]) if a and b else z3.BoolVal(False)


def rangeset(V, na, nb, build):
    """RangeSet built through the public API (constructor + | / |=) in arbitrary insertion order; intersects() must
    equal 'some byte lies in a range of each'."""
    import ethosu.vela.range_set as rs

    a, b = _ranges(V, "a", na), _ranges(V, "b", nb)
    with core.shims((rs, {"min": core.smin, "max": core.smax})):
        def mk(rr):
            r = rs.RangeSet()
            for s, e in rr:
                if build == "or":
                    r = r | rs.RangeSet(s, e)
                else:
                    r |= rs.RangeSet(s, e)
            return r
        try:
            got = mk(a).intersects(mk(b))
        except AssertionError:
            return [("intersects raised AssertionError on sets built through the public API", False)]
    return [("intersects == byte overlap", B(got) == _overlap(a, b))]


def access(V, shape):
    """MemoryAccessSet.conflicts == exists byte written by one and accessed by the other (same region)."""
    import ethosu.vela.range_set as rs
    from ethosu.vela.range_set import AccessDirection as AD

    # shape: list of (set, direction, region) triples, at most 2 per (set, direction)
    sets = [rs.MemoryAccessSet(), rs.MemoryAccessSet()]
    recs = []
    with core.shims((rs, {"min": core.smin, "max": core.smax})):
        for n, (si, d, region) in enumerate(shape):
            s = V.int("r%d_s" % n)
            e = V.int("r%d_e" % n)
            V.assume(s < e)
            sets[si].add(rs.MemoryRangeSet(region, s, e), AD.Read if d == "R" else AD.Write)
            recs.append((si, d, region, s, e))
        got = rs.MemoryAccessSet.conflicts.__wrapped__(sets[0], sets[1])
    terms = []
    for (s0, d0, g0, a0, b0) in recs:
        for (s1, d1, g1, a1, b1) in recs:
            if s0 == 0 and s1 == 1 and g0 == g1 and (d0 == "W" or d1 == "W"):
                terms.append(_overlap([(a0, b0)], [(a1, b1)]))
    want = z3.Or(*terms) if terms else z3.BoolVal(False)
    return [("conflicts == RAW/WAR/WAW byte overlap", B(got) == want)]


def dma_access(V):
    """get_dma_memory_accesses / memory_range_set: the DMA's read set is [src, src+len) in src.region and its write set
    is [dest, dest+dest.length) in dest.region; source and destination length independent."""
    import ethosu.vela.register_command_stream_util as u
    from ethosu.vela.api import NpuDmaOperation, NpuAddressRange
    from ethosu.vela.range_set import AccessDirection as AD

    sa, da = V.int("src", 0, 2**40), V.int("dst", 0, 2**40)
    ln = V.int("len", 1, 2**32)
    sr, dr = V.int("src_region", 0, 7), V.int("dst_region", 0, 7)
    sr_c, dr_c = sr.small_value(0, 7) if V.symbolic else sr, dr.small_value(0, 7) if V.symbolic else dr
    # the two address ranges of the public API carry their own lengths and nothing forces them to agree; DMA0_LEN is programmed from the source
    # length, so the read set must be the whole source range whatever the destination says
    dl = V.int("dest_len", 1, 2**32)
    op = NpuDmaOperation(NpuAddressRange(sr_c, sa, ln), NpuAddressRange(dr_c, da, dl))
    acc = u.get_dma_memory_accesses(op)
    rd, wr = acc.accesses[AD.Read].regions, acc.accesses[AD.Write].regions
    claims = [("read regions", set(rd.keys()) == {sr_c}), ("write regions", set(wr.keys()) == {dr_c})]
    claims.append(("read range", len(rd[sr_c].ranges) == 1 and z3.And(L(rd[sr_c].ranges[0][0]) == L(sa), L(rd[sr_c].ranges[0][1]) == L(sa) + L(ln))))
    claims.append(("write range", len(wr[dr_c].ranges) == 1 and z3.And(L(wr[dr_c].ranges[0][0]) == L(da), L(wr[dr_c].ranges[0][1]) == L(da) + L(dl))))
    return claims


# ---------------------------------------------------------------------------------------------- layer 3


def blockdep(V, accel, prev_lut, cur_lut, same_fm):
    """calc_blockdep sanity that needs no block-timing model: the value is in [0, MAX_BLOCKDEP], and when the previous kernel READS
    SHRAM bytes (its lookup table) that the current kernel WRITES (accumulator area of a non-LUT op on a configuration without reserved
    banks) - a conflict on SHRAM that only BLOCKDEP can guard - the value is 0.  Access sets come from the real
    get_op_memory_accesses; base addresses of the previous OFM and the current IFM are symbolic (overlapping or not)."""
    import ethosu.vela.register_command_stream_util as u
    import ethosu.vela.range_set as rs
    from ethosu.vela import api as a
    from ethosu.vela.architecture_features import ArchitectureFeatures
    from ethosu.vela.range_set import AccessDirection as AD
    from harness.c06 import _template

    arch = arch_for(accel)
    prev, cur = _template(accel, "conv"), _template(accel, "conv")
    if prev_lut:
        prev.activation = a.NpuActivation(a.NpuActivationOp.TABLE_LOOKUP)
        prev.activation.lookup_table_index = 0
    if cur_lut:
        cur.activation = a.NpuActivation(a.NpuActivationOp.TABLE_LOOKUP)
        cur.activation.lookup_table_index = 0
    ofm_base = V.int("prev_ofm_base", 0, 1 << 20)
    ifm_base = ofm_base if same_fm else V.int("cur_ifm_base", 0, 1 << 20)
    prev.ofm.tiles = prev.ofm.tiles._replace(addresses=[ofm_base, 0, 0, 0])
    cur.ifm.tiles = cur.ifm.tiles._replace(addresses=[ifm_base, 0, 0, 0])
    with core.shims((u, {"min": core.smin, "max": core.smax, "int": core.IntShim}), (rs, {"min": core.smin, "max": core.smax})):
        bd = u.calc_blockdep(arch, prev, cur)
        acc_p = u.get_op_memory_accesses(prev, arch)
        acc_c = u.get_op_memory_accesses(cur, arch)
    shram = u.BASE_PTR_INDEX_MEM2MEM
    rd = acc_p.accesses[AD.Read].regions.get(shram)
    wr = acc_c.accesses[AD.Write].regions.get(shram)
    hazard = z3.BoolVal(False)
    if rd is not None and wr is not None:
        hazard = _overlap(rd.ranges, wr.ranges)
    return [("BLOCKDEP in [0, MAX_BLOCKDEP]", z3.And(L(bd) >= 0, L(bd) <= ArchitectureFeatures.MAX_BLOCKDEP)),
            ("previous kernel reads SHRAM bytes the current kernel writes => BLOCKDEP == 0", z3.Implies(hazard, L(bd) == 0))]


def shram_writes(V, accel, lut, kind):
    """the SHRAM bytes a kernel is declared to write (what the DMA/kernel wait analysis sees) cover the shared-buffer area its block
    configuration really uses: [0, LUT_START) of the layout get_arch_block_config computes for it; a table-lookup op is declared to read
    the 2 KiB table just below the reserved banks.  Symbolic base addresses only shift external ranges; the SHRAM ranges must not depend on them."""
    import ethosu.vela.register_command_stream_util as u
    import ethosu.vela.register_command_stream_generator as g
    import ethosu.vela.range_set as rs
    from ethosu.vela import api as a
    from ethosu.vela.range_set import AccessDirection as AD
    from harness.c06 import _template

    arch = arch_for(accel)
    op = _template(accel, kind)
    if lut:
        op.activation = a.NpuActivation(a.NpuActivationOp.TABLE_LOOKUP)
        op.activation.lookup_table_index = 0
    base = V.int("ifm_base", 0, 1 << 20)
    op.ifm.tiles = op.ifm.tiles._replace(addresses=[base, 0, 0, 0])
    with core.shims((u, {"min": core.smin, "max": core.smax, "int": core.IntShim}), (rs, {"min": core.smin, "max": core.smax})):
        acc = u.get_op_memory_accesses(op, arch)
    cfg = g.get_arch_block_config(op, a.NpuBlockTraversal.DEPTH_FIRST, arch)
    used_end = cfg.layout.lut_start * arch.shram_bank_size
    shram = u.BASE_PTR_INDEX_MEM2MEM
    wr = acc.accesses[AD.Write].regions.get(shram)
    rd = acc.accesses[AD.Read].regions.get(shram)
    covered = z3.BoolVal(False)
    if wr is not None:
        covered = z3.Or(*[z3.And(L(s_) <= 0, L(e_) >= used_end) for s_, e_ in wr.ranges])
    cl = [("declared SHRAM writes cover the shared-buffer area the block configuration uses", covered)]
    lut_addr = (arch.shram.total_banks - max(2, arch.shram.reserved_end_banks)) * arch.shram_bank_size if False else None
    if lut:
        want_s = arch.shram_lut_address
        ok = rd is not None and any(z3.is_true(z3.simplify(z3.And(L(s_) <= want_s, L(e_) >= want_s + 2048))) for s_, e_ in rd.ranges)
        cl.append(("a table-lookup kernel is declared to read its 2 KiB table", ok))
    else:
        cl.append(("no SHRAM read declared without a lookup table", rd is None or len(rd.ranges) == 0))
    return cl


# ---------------------------------------------------------------------------------------------- instances

def ifm_block(V, accel, dil_x, dil_y, upscale):
    """ArchitectureFeatures.get_ifm_block_size as calc_blockdep uses it (sub-kernel limit = ofm_block_max): the IFM block that the BLOCKDEP
    overlap analysis assumes a job reads must cover the job's input window per axis - (block-1)*stride + min(dilated kernel, sub-kernel)
    elements (halved, rounded up, under 2x upscaling), rounded up to the IFM micro-block - height from the y quantities, width from the x
    quantities.  A smaller volume makes the analysis miss an overlap with the previous operation's last blocks (BLOCKDEP too large)."""
    import ethosu.vela.architecture_features as af
    import ethosu.vela.numeric_util as nu
    from ethosu.vela.operation import Kernel
    from ethosu.vela.architecture_features import Block
    from ethosu.vela.ethos_u55_regs.ethos_u55_regs import resampling_mode
    from symx import rat

    arch = arch_for(accel)
    kw, kh = V.int("kernel_w", 1, 64), V.int("kernel_h", 1, 64)
    sx, sy = V.int("stride_x", 1, 3), V.int("stride_y", 1, 3)
    bw, bh, bd = V.int("ofm_block_w", 1, 64), V.int("ofm_block_h", 1, 64), V.int("ifm_block_depth", 1, 64)
    mode = [resampling_mode.NONE, resampling_mode.NEAREST, resampling_mode.TRANSPOSE][upscale]
    import ethosu.vela.register_command_stream_util as u
    from ethosu.vela.architecture_features import Rect
    from ethosu.vela import api as a

    k = u.to_kernel(a.NpuKernel(kw, kh, sx, sy, dil_x, dil_y))  # as calc_blockdep obtains the kernel from the operation

    vol = None
    with core.shims((af, {"min": core.smin, "max": core.smax, "int": core.sint}), (nu, {"math": rat.SMATH, "int": core.sint}),
                    (u, {"min": core.smin, "max": core.smax, "int": core.sint})):
        blk = arch.get_ifm_block_size(bd, Block(bw, bh, 16), k, arch.ofm_block_max, mode)
        if upscale == 0:
            # the same volume as calc_blockdep obtains it: first job of the consumer (block offset 0) of a large feature map
            vol = u.get_first_job_input_volume(arch, Rect(0, 0, 0, 4095, 4095, 63), Rect(0, 0, 0, 4095, 4095, 63), bd, Block(bw, bh, 16), k,
                                               a.NpuPadding(0, 0, 0, 0), 0)
    up = 1 if upscale == 0 else 2
    ub = arch.ifm_ublock
    sub = arch.ofm_block_max

    def need(block, stride, ksize, dil, sublimit, ublock):
        dk = (L(ksize) - 1) * dil + 1
        win = (L(block) - 1) * L(stride) + z3.If(dk < sublimit, dk, sublimit)
        rows = (win + up - 1) / up
        return ((rows + ublock - 1) / ublock) * ublock

    return [("IFM block height covers the rows of a job's input window (y stride, dilated kernel height, micro-block rounding)",
             L(blk.height) == need(bh, sy, kh, dil_y, sub.height, ub.height)),
            ("IFM block width covers the columns of a job's input window (x stride, dilated kernel width, micro-block rounding)",
             L(blk.width) == need(bw, sx, kw, dil_x, sub.width, ub.width)),
            ("IFM block depth is the requested depth", L(blk.depth) == L(bd))] + ([] if vol is None else [
                ("calc_blockdep's first-job input volume has that height", L(vol[1].y) - L(vol[0].y) == need(bh, sy, kh, dil_y, sub.height, ub.height)),
                ("calc_blockdep's first-job input volume has that width", L(vol[1].x) - L(vol[0].x) == need(bw, sx, kw, dil_x, sub.width, ub.width)),
                ("calc_blockdep's first-job input volume has the block depth", L(vol[1].z) - L(vol[0].z) == L(bd))])


def kernel_conversion(V):
    """the kernel the BLOCKDEP analysis, the block-config search and the SHRAM layout work with is the operation's kernel: the REAL to_kernel /
    to_npu_kernel on six symbolic fields keep width, height, both strides and both dilations in their own places (and the dilated extents that
    follow from them), in both directions"""
    import ethosu.vela.register_command_stream_util as u
    from ethosu.vela import api as a
    from ethosu.vela.operation import Kernel

    f = {n: V.int(n, 1, 64) for n in ("w", "h", "stride_x", "stride_y", "dilation_x", "dilation_y")}
    k = u.to_kernel(a.NpuKernel(f["w"], f["h"], f["stride_x"], f["stride_y"], f["dilation_x"], f["dilation_y"]))
    n = u.to_npu_kernel(Kernel(f["w"], f["h"], f["stride_x"], f["stride_y"], f["dilation_x"], f["dilation_y"]))
    got_k = dict(w=k.width, h=k.height, stride_x=k.stride.x, stride_y=k.stride.y, dilation_x=k.dilation.x, dilation_y=k.dilation.y)
    got_n = dict(w=n.width, h=n.height, stride_x=n.stride_x, stride_y=n.stride_y, dilation_x=n.dilation_x, dilation_y=n.dilation_y)
    cl = []
    for name in f:
        cl.append(("to_kernel keeps %s" % name, L(got_k[name]) == L(f[name])))
        cl.append(("to_npu_kernel keeps %s" % name, L(got_n[name]) == L(f[name])))
    cl.append(("dilated extents of the converted kernel", z3.And(L(k.area_width()) == (L(f["w"]) - 1) * L(f["dilation_x"]) + 1,
                                                               L(k.area_height()) == (L(f["h"]) - 1) * L(f["dilation_y"]) + 1)))
    d = u.to_kernel(None)
    cl.append(("no kernel means 1x1, stride 1, no dilation", (d.width, d.height, d.stride.x, d.stride.y, d.dilation.x, d.dilation.y) == (1, 1, 1, 1, 1, 1)))
    return cl


def programmed_addresses(V, **params):
    """the wait analysis reasons about the addresses listed in the operations; the hardware acts on the addresses in its registers.  Both agree only
    if every address register holds the operation's value at its NPU_OP word - also when two consecutive values differ only in address bits 32..39
    (harness/c06.py pair, address groups: elision is decided against an arbitrary previous register value)"""
    from harness import c06

    return c06.pair(V, **params)


def area_ranges(V, layout, width, depth, elem, hmax=4):
    """the address ranges the BLOCKDEP overlap analysis uses for a 3-D area of a feature map (get_address_ranges_for_area, through the 4-tile
    addressing) contain every byte of every element of that area: symbolic tile split, bases, area corners and element; heights up to 4 (thorough 6) so that the
    per-row loop unrolls.  A missing row makes intersects() miss a read-after-write hazard and BLOCKDEP too large."""
    import ethosu.vela.register_command_stream_util as u
    from ethosu.vela import api as a
    from ethosu.vela.register_command_stream_util import PointXYZ
    from harness.c10 import _srange

    H = V.int("H", 1, hmax)
    h0, h1 = V.int("height_0", 1, hmax), V.int("height_1", 1, hmax)
    w0 = V.int("width_0", 1, width)
    bases = [V.int("base%d" % i, 0, 1 << 32) for i in range(4)]
    x0, y0, c0 = V.int("x0", 0, width - 1), V.int("y0", 0, hmax - 1), V.int("c0", 0, depth - 1)
    x1, y1, c1 = V.int("x1", 0, width + 2), V.int("y1", 0, hmax + 2), V.int("c1", 0, depth + 3)
    y, x, c = V.int("y", 0, hmax - 1), V.int("x", 0, width - 1), V.int("c", 0, depth - 1)
    V.assume(z3.And(L(y0) < L(H), L(x0) <= L(x1), L(y0) <= L(y1), L(c0) <= L(c1)))
    V.assume(z3.And(L(y) < L(H), L(y) >= L(y0), L(y) <= L(y1), L(x) >= L(x0), L(x) <= L(x1), L(c) >= L(c0), L(c) <= L(c1)))
    fm = a.NpuFeatureMap()
    fm.data_type = a.NpuDataType.INT8 if elem == 1 else a.NpuDataType.INT16
    fm.shape = a.NpuShape3D(H, width, depth)
    fm.tiles = a.NpuTileBox(height_0=h0, height_1=h1, width_0=w0, addresses=bases)
    fm.region = 1
    fm.layout = a.NpuLayout.NHWC if layout == "NHWC" else a.NpuLayout.NHCWB16
    with core.shims((u, {"min": core.smin, "max": core.smax, "int": core.IntShim, "range": _srange(8)})):
        ranges = u.get_address_ranges_for_area(fm, PointXYZ(x0, y0, c0), PointXYZ(x1, y1, c1))
    if layout == "NHWC":
        sx, sy = depth * elem, width * depth * elem
        off = lambda yy, xx: yy * sy + xx * sx + L(c) * elem  # noqa
    else:
        sy = elem * width * (-(-depth // 16) * 16)
        sc = 16 * elem * width
        off = lambda yy, xx: yy * sy + (L(c) / 16) * sc + xx * 16 * elem + (L(c) % 16) * elem  # noqa
    right = L(x) >= L(w0)
    addr = z3.If(right, z3.If(L(y) >= L(h1), L(bases[3]) + off(L(y) - L(h1), L(x) - L(w0)), L(bases[1]) + off(L(y), L(x) - L(w0))),
                 z3.If(L(y) >= L(h0), L(bases[2]) + off(L(y) - L(h0), L(x)), L(bases[0]) + off(L(y), L(x))))
    inside = [z3.And(L(r.address) <= addr, addr + elem <= L(r.address) + L(r.length)) for r in ranges if r is not None]
    return [("every element of the area lies inside one of the area's address ranges", z3.Or(*inside) if inside else z3.BoolVal(False))]


def block_coords(V, wb, hb, db):
    """get_offset_block_coords numbers the blocks of an area the way the hardware traverses them - depth first, then width, then height - from the
    start (offset >= 0) or from the end (offset < 0): symbolic area origin, block size and offset, enumerated block counts per axis"""
    import ethosu.vela.register_command_stream_util as u
    from ethosu.vela.register_command_stream_util import Rect
    from ethosu.vela.architecture_features import Block
    import ethosu.vela.numeric_util as nu

    bw, bh, bd = V.int("block_w", 1, 64), V.int("block_h", 1, 64), V.int("block_d", 1, 64)
    ax, ay, az = V.int("area_x", 0, 4096), V.int("area_y", 0, 4096), V.int("area_z", 0, 4096)
    # area extent: (count-1) full blocks plus a partial one
    pw, ph, pd = V.int("part_w", 1, 64), V.int("part_h", 1, 64), V.int("part_d", 1, 64)
    V.assume(z3.And(L(pw) <= L(bw), L(ph) <= L(bh), L(pd) <= L(bd)))
    sw, sh_, sd = (wb - 1) * bw + pw, (hb - 1) * bh + ph, (db - 1) * bd + pd
    off = V.int("offset", -(wb * hb * db) - 2, wb * hb * db + 2)
    area = Rect(ax, ay, az, ax + sw - 1, ay + sh_ - 1, az + sd - 1)

    def rud(a, b):  # round_up_divide on proxies: the quotient is known by construction, checked as an assumption-free identity below
        return (a + b - 1) // b

    total = wb * hb * db
    with core.shims((u, {"min": core.smin, "max": core.smax, "int": core.IntShim}), (nu, {"int": core.IntShim})):
        got = u.get_offset_block_coords(area, Block(bw, bh, bd), off)
    idx = z3.If(L(off) < 0, total + L(off), L(off))
    if got is None:
        return [("no block only for an index beyond the last block", idx >= total)]
    zi = idx % db
    xi = (idx / db) % wb
    yi = idx / (db * wb)
    return [("an index beyond the last block has no coordinates", idx < total),
            ("depth coordinate: depth-first numbering", L(got.z) == L(az) + zi * L(bd)),
            ("width coordinate: width second", L(got.x) == L(ax) + xi * L(bw)),
            ("height coordinate: height last", L(got.y) == L(ay) + yi * L(bh))]


def footprint_strided(V, **params):
    """the wait analysis sees an operation through get_address_ranges: a strided view is declared with its own footprint, whatever was analysed
    before it in the same process (harness/c02.py footprint_strided)"""
    from harness import c02

    return c02.footprint_strided(V, **params)


class _Obj:
    def __init__(self, **kw):
        self.__dict__.update(kw)


def job_volume(V, accel, kind, wb, hb, db, stride):
    """which part of the IFM the BLOCKDEP analysis assumes the consumer's job j reads (get_ifm_ofm_block_depth + get_first_job_input_volume):
    a convolution accumulates over the IFM depth slices, ceil(ifm depth / ifm block depth) jobs per OFM block; depthwise, pooling and elementwise
    operations run ONE job per OFM block.  Job j therefore belongs to OFM block j // jobs_per_block in the hardware's block order (depth, width,
    height) and the analysed volume must start at that block's position times the stride and contain the channels the job reads.  Symbolic job
    index, enumerated block grid and stride."""
    import ethosu.vela.register_command_stream_util as u
    import ethosu.vela.architecture_features as af
    import ethosu.vela.numeric_util as nu
    from ethosu.vela.architecture_features import Block
    from ethosu.vela.operation import Kernel
    from ethosu.vela import api as a
    from symx import rat

    arch = arch_for(accel)
    bw, bh, bd = 8, 4, 16
    W, H, D = wb * bw, hb * bh, db * bd
    j = V.int("job", 0, 2)
    optype = {"conv": a.NpuOperationType.Conv2D, "depthwise": a.NpuOperationType.ConvDepthWise, "pool": a.NpuOperationType.Pooling}[kind]
    ifm_depth = 64 if kind == "conv" else D

    def fm(h, w, d):
        f = a.NpuFeatureMap()
        f.data_type = a.NpuDataType.INT8
        f.shape = a.NpuShape3D(h, w, d)
        return f

    op = _Obj(op_type=optype, ifm=fm(H * stride, W * stride, ifm_depth), ofm=fm(H, W, D), block_config=a.NpuShape3D(bh, bw, bd))
    kernel = Kernel(1, 1, stride, stride)
    with core.shims((af, {"min": core.smin, "max": core.smax, "int": core.sint}), (nu, {"math": rat.SMATH, "int": core.sint}),
                    (u, {"min": core.smin, "max": core.smax, "int": core.sint})):
        depth = u.get_ifm_ofm_block_depth(arch, op)
        vol = u.get_first_job_input_volume(arch, u.shape3d_to_rect(op.ifm.shape), u.shape3d_to_rect(op.ofm.shape), depth, Block(bw, bh, bd), kernel,
                                           a.NpuPadding(0, 0, 0, 0), j)
    if kind == "conv":
        idb_depth = arch.calc_ifm_block_depth(ifm_depth, 8)
        jobs_per_block = -(-ifm_depth // idb_depth)
    else:
        jobs_per_block = 1
    b = L(j) / jobs_per_block
    total = wb * hb * db
    if vol is None:
        return [("no volume only beyond the last OFM block", b >= total)]
    zi, xi, yi = b % db, (b / db) % wb, b / (db * wb)
    cl = [("job j belongs to an existing OFM block", b < total),
          ("the volume starts at the column of OFM block j // jobs_per_block", L(vol[0].x) == xi * bw * stride),
          ("the volume starts at the row of that block", L(vol[0].y) == yi * bh * stride)]
    if kind == "conv":
        s = L(j) % jobs_per_block
        cl.append(("the volume holds the IFM depth slice the job accumulates", z3.And(L(vol[0].z) <= s * idb_depth, L(vol[1].z) >= z3.If((s + 1) * idb_depth < ifm_depth, (s + 1) * idb_depth, ifm_depth))))
    else:
        cl.append(("the volume holds the channels of that OFM block", z3.And(L(vol[0].z) <= zi * bd, L(vol[1].z) >= zi * bd + bd)))
    return cl


def range_lists(V, na, nb):
    """range_lists_overlap (the first filter of calc_blockdep: does the previous OFM touch this IFM at all?) on two tile lists of four entries
    each, any of which may be None (an unused tile - a vertically wrapped rolling buffer uses tiles 0 and 2 only): true exactly when some
    present range of one list shares a byte with some present range of the other.  Which entries are present is a symbolic choice, addresses
    and lengths are symbolic."""
    import ethosu.vela.register_command_stream_util as u
    from ethosu.vela import api as a

    def lst(tag, n):
        out, present = [], []
        for i in range(4):
            here = bool(V.bool("%s%d_present" % (tag, i))) if i < n else False
            if here:
                ad, ln = V.int("%s%d_addr" % (tag, i), 0, 1 << 20), V.int("%s%d_len" % (tag, i), 1, 1 << 16)
                out.append(a.NpuAddressRange(region=1, address=ad, length=ln))
                present.append((ad, ln))
            else:
                out.append(None)
        return out, present

    la, pa = lst("a", na)
    lb, pb = lst("b", nb)
    with core.shims((u, {"min": core.smin, "max": core.smax})):
        got = u.range_lists_overlap(la, lb)
    ov = [z3.And(L(x[0]) < L(y[0]) + L(y[1]), L(y[0]) < L(x[0]) + L(x[1])) for x in pa for y in pb]
    return [("the lists overlap exactly when two present ranges share a byte", B(got) == (z3.Or(*ov) if ov else z3.BoolVal(False)))]


def intersects_sound(V, same_base):
    """the overlap test of the BLOCKDEP analysis (intersects) never misses shared bytes: two NHWC feature maps of equal shape and tile dimensions
    with SYMBOLIC base addresses (equal or not), two symbolic areas (end exclusive, as calc_blockdep passes them) and one symbolic element in each;
    whenever the two elements are the same bytes, intersects() answers True.  (The coordinate shortcut is only valid when the two feature maps
    are the same memory.)"""
    import ethosu.vela.register_command_stream_util as u
    from ethosu.vela import api as a
    from ethosu.vela.register_command_stream_util import PointXYZ
    from harness.c10 import _srange

    H, W, D = 6, 4, 16
    b1 = V.int("ifm_base", 0, 1 << 16)
    b2 = b1 if same_base else V.int("ofm_base", 0, 1 << 16)

    def fm(base):
        f = a.NpuFeatureMap()
        f.data_type = a.NpuDataType.INT8
        f.shape = a.NpuShape3D(H, W, D)
        f.tiles = a.NpuTileBox(height_0=H, height_1=H, width_0=W, addresses=[base, 0, 0, 0])
        f.region = 1
        f.layout = a.NpuLayout.NHWC
        return f

    def area(tag):
        s_ = [V.int("%s_%s0" % (tag, ax), 0, hi - 1) for ax, hi in (("x", W), ("y", H), ("z", D))]
        e_ = [V.int("%s_%s1" % (tag, ax), 1, hi) for ax, hi in (("x", W), ("y", H), ("z", D))]
        p_ = [V.int("%s_elem_%s" % (tag, ax), 0, hi - 1) for ax, hi in (("x", W), ("y", H), ("z", D))]
        V.assume(z3.And(*[z3.And(L(s_[i]) < L(e_[i]), L(p_[i]) >= L(s_[i]), L(p_[i]) < L(e_[i])) for i in range(3)]))
        return PointXYZ(*s_), PointXYZ(*e_), p_

    s1, e1, p1 = area("ifm")
    s2, e2, p2 = area("ofm")
    off = lambda p: L(p[1]) * W * D + L(p[0]) * D + L(p[2])  # noqa: E731
    V.assume(L(b1) + off(p1) == L(b2) + off(p2))  # the two elements are the same byte
    with core.shims((u, {"min": core.smin, "max": core.smax, "int": core.IntShim, "range": _srange(8)})):
        got = u.intersects(fm(b1), s1, e1, fm(b2), s2, e2)
    return [("two areas that share a byte are reported as intersecting", B(got))]


FUNCS = {"kernel_conversion": kernel_conversion, "intersects_sound": intersects_sound, "range_lists": range_lists, "job_volume": job_volume, "footprint_strided": footprint_strided, "area_ranges": area_ranges, "block_coords": block_coords, "programmed_addresses": programmed_addresses, "ifm_block": ifm_block, "waits": waits, "wait_step": wait_step, "rangeset": rangeset, "access": access, "dma_access": dma_access, "blockdep": blockdep, "shram_writes": shram_writes}


def instances(tier, seed):
    out = [dict(key="kernel_conversion", fn="kernel_conversion", params={})]
    for accel in ("Ethos_U55_32", "Ethos_U55_128", "Ethos_U65_256", "Ethos_U65_512"):
        for dx, dy in ((1, 1), (2, 1), (1, 2)):
            for ups in (0, 1, 2):
                out.append(dict(key="ifm_block/%s/d%dx%d/up%d" % (accel, dx, dy, ups), fn="ifm_block", params=dict(accel=accel, dil_x=dx, dil_y=dy, upscale=ups)))
    for kind, group in (("conv", "ifm_addr"), ("conv", "ofm_addr"), ("dma", "dma")):
        out.append(dict(key="programmed_addresses/%s/%s" % (kind, group), fn="programmed_addresses",
                        params=dict(accel="Ethos_U65_512", kind=kind, group=group, light=(kind != "dma")), weight=100))
    for layout in ("NHWC", "NHCWB16"):
        for width in (1, 4):
            for depth in (16, 20):
                for elem in (1, 2):
                    if tier == "quick" and (elem == 2) != (depth == 20):
                        continue
                    out.append(dict(key="area_ranges/%s/w%d_d%d_e%d" % (layout, width, depth, elem), fn="area_ranges",
                                    params=dict(layout=layout, width=width, depth=depth, elem=elem, hmax=4 if tier == "quick" else 6), weight=40))
    for kind in ("conv", "depthwise", "pool"):
        for (wb, hb, db) in ((1, 1, 1), (2, 1, 1), (2, 2, 1), (1, 1, 2), (2, 1, 2), (3, 2, 2), (1, 2, 3)):
            for stride in (1, 2):
                out.append(dict(key="job_volume/%s/%dx%dx%d/s%d" % (kind, wb, hb, db, stride), fn="job_volume",
                                params=dict(accel="Ethos_U55_128", kind=kind, wb=wb, hb=hb, db=db, stride=stride)))
    for na, nb in ((4, 1), (1, 4), (3, 3)) + (((4, 4),) if tier != "quick" else ()):
        out.append(dict(key="range_lists/%d_%d" % (na, nb), fn="range_lists", params=dict(na=na, nb=nb), weight=30))
    for sb in (0, 1):
        out.append(dict(key="intersects_sound/%s" % ("same_memory" if sb else "shifted"), fn="intersects_sound", params=dict(same_base=sb), weight=60))
    for fd in (0, 1, 2):
        out.append(dict(key="footprint_strided/%s" % ("alone", "after_dense", "retargeted")[fd], fn="footprint_strided", params=dict(first_dense=fd)))
    for wb in (1, 2, 3):
        for hb in (1, 2, 3):
            for db in (1, 2, 3):
                out.append(dict(key="block_coords/%dx%dx%d" % (wb, hb, db), fn="block_coords", params=dict(wb=wb, hb=hb, db=db)))
    nmax = 6 if tier == "quick" else 9
    for accel in ("Ethos_U55_128", "Ethos_U65_256"):
        for n in range(1, nmax + 1):
            for seq in itertools.product("DK", repeat=n):
                s = "".join(seq)
                out.append(dict(key="waits/%s/%s" % (accel, s), fn="waits", params=dict(seq=s, accel=accel), weight=2 ** n))
        for ndma in range(0, 3 if accel.startswith("Ethos_U65") else 2):
            for nk in range(0, 3):
                for kind in "DK":
                    out.append(dict(key="wait_step/%s/d%d_k%d_%s" % (accel, ndma, nk, kind), fn="wait_step",
                                    params=dict(ndma=ndma, nk=nk, kind=kind, accel=accel)))
    rmax = 3
    for na in range(0, rmax + 1):
        for nb in range(0, rmax + 1):
            if tier == "quick" and na + nb > 4:
                continue
            for build in ("or", "ior"):
                out.append(dict(key="rangeset/%d_%d_%s" % (na, nb, build), fn="rangeset", params=dict(na=na, nb=nb, build=build),
                                weight=4 ** (na + nb)))
    shapes = []
    dirs = ["R", "W"]
    for d0 in dirs:
        for d1 in dirs:
            shapes.append([(0, d0, 0), (1, d1, 0)])
            shapes.append([(0, d0, 0), (1, d1, 1)])
            for d2 in dirs:
                shapes.append([(0, d0, 0), (0, d2, 0), (1, d1, 0)])
                shapes.append([(0, d0, 0), (1, d1, 0), (1, d2, 0)])
                shapes.append([(0, d0, 0), (0, d2, 1), (1, d1, 1)])
    if tier != "quick":
        for d0, d1, d2, d3 in itertools.product(dirs, repeat=4):
            shapes.append([(0, d0, 0), (0, d1, 0), (1, d2, 0), (1, d3, 0)])
            shapes.append([(0, d0, 0), (0, d1, 1), (1, d2, 0), (1, d3, 1)])
    for i, sh in enumerate(shapes):
        out.append(dict(key="access/%d/%s" % (i, "".join("%d%s%d" % t for t in sh)), fn="access", params=dict(shape=sh)))
    out.append(dict(key="dma_access", fn="dma_access", params={}))
    for accel in ("Ethos_U55_32", "Ethos_U55_64", "Ethos_U55_128", "Ethos_U65_256"):
        for prev_lut in (0, 1):
            for cur_lut in (0, 1):
                for same in (0, 1):
                    out.append(dict(key="blockdep/%s/lut%d%d/%s" % (accel, prev_lut, cur_lut, "same_fm" if same else "free"), fn="blockdep",
                                    params=dict(accel=accel, prev_lut=prev_lut, cur_lut=cur_lut, same_fm=same), weight=20))
    for accel in ("Ethos_U55_32", "Ethos_U55_64", "Ethos_U55_128", "Ethos_U55_256", "Ethos_U65_256", "Ethos_U65_512"):
        for lut in (0, 1):
            for kind in ("conv", "pool"):
                out.append(dict(key="shram_writes/%s/%s/lut%d" % (accel, kind, lut), fn="shram_writes", params=dict(accel=accel, lut=lut, kind=kind)))
    return out
