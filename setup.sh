#!/bin/sh
# Offline, idempotent creation of /verif/.venv: an overlay on /venv (repo deps + editable ethosu) plus z3/crosshair/cvc5.
set -e
D="$(cd "$(dirname "$0")" && pwd)"
V="$D/.venv"
if [ -x "$V/bin/python" ] && "$V/bin/python" -c "import z3, crosshair, numpy, ethosu.vela" >/dev/null 2>&1; then
    exit 0
fi
(
  flock 9
  if [ -x "$V/bin/python" ] && "$V/bin/python" -c "import z3, crosshair, numpy, ethosu.vela" >/dev/null 2>&1; then
      exit 0
  fi
  rm -rf "$V"
  /venv/bin/python -m venv "$V"
  echo "import site; site.addsitedir('/venv/lib/python3.12/site-packages')" > "$V/lib/python3.12/site-packages/_base.pth"
  PIP_NO_INDEX=1 "$V/bin/pip" install -q --no-index --find-links /opt/veriftools/wheels z3-solver crosshair-tool cvc5 >/dev/null
  "$V/bin/python" -c "import z3, crosshair, numpy, ethosu.vela"
) 9>"$D/.venv.lock"
