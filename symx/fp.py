"""SFloat: IEEE-754 proxies (z3 FP theory, RNE) for Python float / np.float64 / np.float32.

kind: 'py'  Python float (binary64, *weak* under NEP 50: adopts the NumPy operand's dtype)
      'f64' np.float64
      'f32' np.float32
Promotion as in the installed NumPy 2.x (NEP 50):  f32 op py|int -> f32 (the Python scalar is cast to float32 first);
f32 op f64 -> f64;  py op py|int -> py;  f64 op anything -> f64.
Floats are never treated as reals; claims about results are phrased in bit-vectors by the harnesses.
"""
import builtins
import math
import struct

import numpy as np
import z3

from . import core
from .core import SBool, SInt, Unmodelled, lift

F64 = z3.Float64()
F32 = z3.Float32()
RNE = z3.RNE()
RTZ = z3.RTZ()


def _sort(kind):
    return F32 if kind == "f32" else F64


def fpval(x, sort):
    return z3.FPVal(float(x), sort)


class SFloat:
    __slots__ = ("e", "kind")
    __sym__ = True

    def __init__(self, e, kind):
        self.e = e
        self.kind = kind

    # ---- promotion
    @staticmethod
    def _coerce(a, b):
        """returns (ea, eb, kind) with both operands converted to the result format"""
        ka = a.kind if isinstance(a, SFloat) else None
        kb = b.kind if isinstance(b, SFloat) else None

        def kind_of(x):
            if isinstance(x, SFloat):
                return x.kind
            if isinstance(x, np.float32):
                return "f32"
            if isinstance(x, np.float64):
                return "f64"
            if isinstance(x, (float, int, bool)) and not isinstance(x, np.generic):
                return "weak"
            if isinstance(x, SInt):
                return "weak"
            if isinstance(x, np.integer):
                return "npint"
            return None

        ka, kb = kind_of(a), kind_of(b)
        if ka is None or kb is None:
            return None
        if "npint" in (ka, kb):
            raise Unmodelled("float op numpy integer scalar")
        order = {"weak": 0, "py": 1, "f32": 2, "f64": 3}
        if ka == "py" and kb == "f32" or ka == "f32" and kb == "py":
            k = "f32"
        elif ka == "weak" or kb == "weak":
            k = kb if ka == "weak" else ka
            if k == "weak":
                k = "py"
        else:
            k = ka if order[ka] >= order[kb] else kb
        return SFloat._to(a, k), SFloat._to(b, k), k

    @staticmethod
    def _to(x, kind):
        srt = _sort(kind)
        if isinstance(x, SFloat):
            if _sort(x.kind) == srt:
                return x.e
            return z3.fpToFP(RNE, x.e, srt)
        if isinstance(x, SInt):
            c = x.concrete_or_none()
            if c is not None:
                return z3.FPVal(float(c), srt) if float(c) == c else z3.fpToFP(RNE, z3.RealVal(c), srt)
            bv = z3.Int2BV(x.e, 64)
            return z3.fpSignedToFP(RNE, bv, srt)
        if isinstance(x, (int, bool)) and not isinstance(x, np.generic):
            if kind == "f32":
                return z3.FPVal(float(np.float32(x)), srt)
            return z3.FPVal(float(x), srt)
        if isinstance(x, (float, np.floating)):
            if kind == "f32":
                return z3.FPVal(float(np.float32(x)), srt)
            return z3.FPVal(float(x), srt)
        raise Unmodelled("cannot convert %r to float" % (x,))

    def _bin(s, o, f, rev=False):
        c = SFloat._coerce(s, o)
        if c is None:
            return NotImplemented
        a, b, k = c
        if rev:
            a, b = b, a
        return SFloat(f(a, b), k)

    def __add__(s, o):
        return s._bin(o, lambda a, b: z3.fpAdd(RNE, a, b))

    def __radd__(s, o):
        return s._bin(o, lambda a, b: z3.fpAdd(RNE, a, b), True)

    def __sub__(s, o):
        return s._bin(o, lambda a, b: z3.fpSub(RNE, a, b))

    def __rsub__(s, o):
        return s._bin(o, lambda a, b: z3.fpSub(RNE, a, b), True)

    def __mul__(s, o):
        return s._bin(o, lambda a, b: z3.fpMul(RNE, a, b))

    def __rmul__(s, o):
        return s._bin(o, lambda a, b: z3.fpMul(RNE, a, b), True)

    def __truediv__(s, o):
        return s._bin(o, lambda a, b: z3.fpDiv(RNE, a, b))

    def __rtruediv__(s, o):
        return s._bin(o, lambda a, b: z3.fpDiv(RNE, a, b), True)

    def __neg__(s):
        return SFloat(z3.fpNeg(s.e), s.kind)

    def __abs__(s):
        return SFloat(z3.fpAbs(s.e), s.kind)

    def _cmp(s, o, f):
        c = SFloat._coerce(s, o)
        if c is None:
            return NotImplemented
        a, b, _ = c
        return SBool(f(a, b))

    def __lt__(s, o):
        return s._cmp(o, z3.fpLT)

    def __le__(s, o):
        return s._cmp(o, z3.fpLEQ)

    def __gt__(s, o):
        return s._cmp(o, z3.fpGT)

    def __ge__(s, o):
        return s._cmp(o, z3.fpGEQ)

    def __eq__(s, o):
        r = s._cmp(o, z3.fpEQ)
        return False if r is NotImplemented else r

    def __ne__(s, o):
        r = s._cmp(o, z3.fpEQ)
        return True if r is NotImplemented else SBool(z3.Not(r.e))

    def __hash__(s):
        return 0

    def __bool__(s):
        return bool(SBool(z3.Not(z3.fpIsZero(s.e))))

    def __float__(s):
        raise Unmodelled("float() realisation of a symbolic float")

    def __int__(s):
        raise Unmodelled("int() on a symbolic float (install the sint shim)")

    def __sym_toint__(s):
        """int(x): truncation toward zero.  The result keeps the 64-bit vector it was derived from in .bv"""
        bv = z3.fpToSBV(RTZ, s.e, z3.BitVecSort(64))
        r = SInt(z3.BV2Int(bv, True))
        r.bv = bv
        return r

    def __trunc__(s):
        return s.__sym_toint__()

    def __round__(s, ndigits=None):
        """Python's round(): round half to even, returns an int"""
        if ndigits is not None:
            raise Unmodelled("round(x, ndigits) on a symbolic float")
        bv = z3.fpToSBV(RNE, s.e, z3.BitVecSort(64))
        r = SInt(z3.BV2Int(bv, True))
        r.bv = bv
        return r

    def __floor__(s):
        bv = z3.fpToSBV(z3.RTN(), s.e, z3.BitVecSort(64))
        r = SInt(z3.BV2Int(bv, True))
        r.bv = bv
        return r

    def __ceil__(s):
        bv = z3.fpToSBV(z3.RTP(), s.e, z3.BitVecSort(64))
        r = SInt(z3.BV2Int(bv, True))
        r.bv = bv
        return r

    def __repr__(s):
        return "SFloat[%s](%s)" % (s.kind, s.e)

    def __format__(s, spec):
        return "<symfloat>"

    # ---- bit access
    def bits(s):
        return z3.fpToIEEEBV(s.e)


def as_f64(x):
    """exact widening (float32 -> float64 is exact)"""
    if isinstance(x, SFloat):
        return x.e if _sort(x.kind) == F64 else z3.fpToFP(RNE, x.e, F64)
    return z3.FPVal(float(x), F64)


def frexp(x):
    """math.frexp for normal, non-zero finite values (harnesses assume normality; other classes are enumerated concretely)"""
    if not isinstance(x, SFloat):
        return math.frexp(x)
    d = as_f64(x)
    bv = z3.fpToIEEEBV(d)
    sign = z3.Extract(63, 63, bv)
    expf = z3.Extract(62, 52, bv)
    mant = z3.Extract(51, 0, bv)
    sig = SFloat(z3.fpFP(sign, z3.BitVecVal(1022, 11), mant), "py")
    e = SInt(z3.BV2Int(expf, False) - 1022)
    e.bv = expf
    return sig, e


def trunc(x):
    if isinstance(x, SFloat):
        return SFloat(z3.fpRoundToIntegral(RTZ, x.e), x.kind if x.kind != "py" else "f64")
    return np.trunc(x)


def _rti(mode, real):
    def f(x, *a, **k):
        if isinstance(x, SFloat):
            if a or k:
                raise Unmodelled("np.%s with extra arguments on a symbolic float" % real.__name__)
            return SFloat(z3.fpRoundToIntegral(mode, x.e), x.kind if x.kind != "py" else "f64")
        return real(x, *a, **k)
    return f


np_round = _rti(RNE, np.round)   # NumPy rounds half to even
np_rint = _rti(RNE, np.rint)
np_floor = _rti(z3.RTN(), np.floor)
np_ceil = _rti(z3.RTP(), np.ceil)


def sfloat(x=0.0):
    """float(x): exact widening to a Python float (binary64)"""
    if isinstance(x, SFloat):
        return SFloat(as_f64(x), "py")
    if isinstance(x, SInt):
        return SFloat(SFloat._to(x, "py"), "py")
    return builtins.float(x)


class _SMath:
    frexp = staticmethod(frexp)

    def __getattr__(self, n):
        return getattr(math, n)


SMATH = _SMath()


class _SNumpy:
    """numpy stand-in for numeric_util (trunc on proxies); everything else is the real numpy"""

    trunc = staticmethod(trunc)

    @staticmethod
    def double(x=0.0):
        """np.double / np.float64 on a float proxy: the exact widening to binary64 (a NumPy float64 scalar)"""
        if isinstance(x, SFloat):
            return SFloat(as_f64(x), "f64")
        return np.double(x)

    float64 = double
    round = staticmethod(np_round)
    around = staticmethod(np_round)
    rint = staticmethod(np_rint)
    floor = staticmethod(np_floor)
    ceil = staticmethod(np_ceil)

    def __getattr__(self, n):
        return getattr(np, n)


SNUMPY = _SNumpy()


def smax2(*a):
    """max() over floats without forking where both are SFloat-compatible"""
    return core.smax(*a)


# ---- value providers


def _sym_float(V, name, kind):
    srt = _sort(kind)
    V.decls[name] = ("float", kind)
    return SFloat(z3.FP(name, srt), kind)


def _conc_float(V, name, kind):
    v = V.values.get(name)
    if v is None:
        x = 1.0
    else:
        bits = v["fpbits"]
        if v["sbits"] == 24:
            x = struct.unpack("<f", struct.pack("<I", bits))[0]
        else:
            x = struct.unpack("<d", struct.pack("<Q", bits))[0]
    if kind == "f32":
        return np.float32(x)
    if kind == "f64":
        return np.float64(x)
    return float(x)


core.register_kind("float", _sym_float, _conc_float)


def F(x):
    """lift a float-like to a z3 FP term in its own format (concrete values become FPVal)"""
    if isinstance(x, SFloat):
        return x.e
    if isinstance(x, np.float32):
        return z3.FPVal(float(x), F32)
    return z3.FPVal(float(x), F64)
