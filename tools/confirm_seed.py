#!/usr/bin/env python3
"""confirm a seeded change produced by a sub-agent: tools/confirm_seed.py C04 1
 - pristine worktree: demo passes;  with patch: import ok, suite has exactly the 4 baseline failures, demo fails.
 Copies patch/demo/notes into /verif/seeded/<id>_<n>/ and writes meta.json."""
import json, os, re, shutil, subprocess, sys
pid, n = sys.argv[1], sys.argv[2]
wt = os.environ.get("SEED_WT", "/tmp/wt") + f"/{pid}"
env = dict(os.environ, PYTHONPATH=wt, PYTHONWARNINGS="ignore")
def sh(cmd, **kw):
    return subprocess.run(cmd, shell=True, cwd=wt, env=env, capture_output=True, text=True, **kw)
BASE_FAIL = {"test_build_correct_readme_links", "test_quant_static_optimisations", "test_optimise_quantize_multiple_values", "test_constraint_padded_dimensions"}
assert sh("git status --short ethosu").stdout.strip() == "", "worktree not pristine"
patch, demo = f"{wt}/patch_{n}.diff", f"demo_{pid}_{n}.py"
r0 = sh(f"/venv/bin/python {demo}", timeout=1800)
assert sh(f"git apply {patch}").returncode == 0, "patch does not apply"
try:
    imp = sh("/venv/bin/python -c 'import ethosu.vela.vela'")
    t = sh("/venv/bin/python -m pytest -q -p no:cacheprovider --timeout=900 -q 2>&1 | tail -15", timeout=1800)
    failed = set(re.findall(r"FAILED \S+::(\w+)", t.stdout))
    summary = [l for l in t.stdout.splitlines() if " passed" in l or " failed" in l]
    r1 = sh(f"/venv/bin/python {demo}", timeout=1800)
finally:
    sh("git checkout -- ethosu")
ok = r0.returncode == 0 and r1.returncode != 0 and imp.returncode == 0 and failed == BASE_FAIL
print(f"{pid}_{n}: demo pristine rc={r0.returncode}, patched rc={r1.returncode}, import rc={imp.returncode}, failures={sorted(failed)} {summary} -> {'CONFIRMED' if ok else 'REJECTED'}")
if ok:
    d = f"/verif/seeded/{pid}_{int(n) + int(os.environ.get('SEED_OFFSET', '0'))}"
    os.makedirs(d, exist_ok=True)
    shutil.copy(patch, f"{d}/patch.diff"); shutil.copy(f"{wt}/{demo}", f"{d}/{demo}")
    if os.path.exists(f"{wt}/notes_{n}.md"): shutil.copy(f"{wt}/notes_{n}.md", f"{d}/notes.md")
    meta = {"property": pid, "breaks": "see notes.md", "needs_to_manifest": "see notes.md",
            "confirmed": {"worktree": wt, "demo_pristine_rc": r0.returncode, "demo_patched_rc": r1.returncode,
                          "suite_with_patch": summary, "suite_failures_with_patch": sorted(failed),
                          "commands": [f"cd {wt} && PYTHONPATH={wt} /venv/bin/python {demo}   (pristine, then with git apply patch_{n}.diff)",
                                       f"cd {wt} && PYTHONPATH={wt} /venv/bin/python -m pytest -q -p no:cacheprovider --timeout=900 -q"]},
            "demo_patched_tail": r1.stdout[-600:], "detected_by": "TBD"}
    json.dump(meta, open(f"{d}/meta.json", "w"), indent=1)
sys.exit(0 if ok else 1)
