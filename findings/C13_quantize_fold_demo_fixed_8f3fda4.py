import sys, traceback
import numpy as np
from ethosu.vela.data_type import DataType
from ethosu.vela.errors import VelaError
from ethosu.vela.graph_optimiser import optimise_graph
from ethosu.vela.nn_graph import Graph, NetworkType, Subgraph
from ethosu.vela.operation import Op, Operation
from ethosu.vela.tensor import QuantizationParameters, Tensor
from ethosu.vela.test import testutil
from ethosu.vela.tflite_model_semantic import tflite_semantic_checker

def quant(s):
    qp = QuantizationParameters(); qp.scale_f32 = np.float32(s); qp.zero_point = 0; qp.quant_min=-128; qp.quant_max=127
    return qp
shape=[1,4,4,8]
c = Tensor(shape, DataType.int8, "c"); c.quantization=quant(0.25); c.values=np.ones(shape,dtype=np.int8)
Operation(Op.Const,"c").set_output_tensor(c)
q = Tensor(shape, DataType.int8, "q"); q.quantization=quant(0.5)
qop = Operation(Op.Quantize,"quant"); qop.op_index=0; qop.add_input_tensor(c); qop.set_output_tensor(q)
x = Tensor(shape, DataType.int8, "x"); x.quantization=quant(0.5)
Operation(Op.Placeholder,"x").set_output_tensor(x)
y = Tensor(shape, DataType.int8, "y"); y.quantization=quant(0.5)
add = Operation(Op.Add,"add"); add.op_index=1; add.add_input_tensor(x); add.add_input_tensor(q); add.set_output_tensor(y)
sg = Subgraph("main"); sg.original_inputs=[x]; sg.output_tensors=[y, c]
nng = Graph("demo"); nng.subgraphs.append(sg); nng.refresh_after_modification()
arch = testutil.create_arch()
try:
    nng = tflite_semantic_checker(nng)
    nng = optimise_graph(nng, arch, NetworkType.TFLite)
    print("ok"); sys.exit(0)
except VelaError as e:
    print("vela error", e); sys.exit(0)
except Exception:
    traceback.print_exc(); sys.exit(1)
