#!/usr/bin/env python3
"""writes the prompts for a round of independent seeding agents: tools/mkprompts.py <round> <worktree root> <prompt dir>
Each agent gets only the text of one property, its own scratch worktree and (from round 2 on) the list of functions earlier rounds already
touched.  Nothing from /verif is shown to the agents; the prompts live outside /verif and /repo."""
import glob
import json
import os
import re
import sys

rnd, wt, out = int(sys.argv[1]), sys.argv[2], sys.argv[3]
os.makedirs(out, exist_ok=True)
CLAIMED = ('C02', 'C03', 'C04', 'C05', 'C06', 'C08', 'C09', 'C10', 'C13', 'C14', 'C15', 'C16', 'C17', 'C18', 'C19')
excl = {}
for d in glob.glob('/verif/seeded/*/patch.diff'):
    pid = d.split('/')[-2][:3]
    excl.setdefault(pid, set()).update(re.findall(r'@@.*@@ (?:def |class )?([A-Za-z_][A-Za-z_0-9\.]*)', open(d).read()))
for l in open('/verif/properties.jsonl'):
    p = json.loads(l)
    pid = p['id']
    if pid not in CLAIMED:
        continue
    W = "%s/%s" % (wt, pid)
    txt = f"""You are helping test a verification effort for the open-source project ethos-u-vela (NXP fork; a Python compiler that lowers quantised TFLite/TOSA graphs to Arm Ethos-U NPU command streams). Your job is to play the role of a developer who introduces a subtle, realistic regression.

You have your own scratch git worktree of the repository at {W} (already created; detached HEAD). Work ONLY inside {W}. Never read, edit or run anything in /repo or /verif (they are off limits). No network is available.

How to run things in your worktree (the worktree must shadow the installed editable copy):
  cd {W} && PYTHONPATH={W} /venv/bin/python -m pytest -q -p no:cacheprovider --timeout=900 -q
On the unmodified tree exactly these 4 tests fail (pre-existing, ignore them): test_build.py::test_build_correct_readme_links, test_graph_optimiser.py::test_quant_static_optimisations, test_graph_optimiser.py::test_optimise_quantize_multiple_values, test_tflite_supported_operators.py::test_constraint_padded_dimensions. The suite takes about 10 seconds.

THE PROPERTY (this is all you are given about the verification effort):
  id: {pid}
  title: {p['title']}
  statement: {p['statement']}
  quantified over: {p['quantifier']['text']}
  why the existing tests cannot settle it: {p['why_tests_cant']}
  code anchors: {json.dumps(p['anchors'])}

TASK: produce a change to the project's source (Python under ethosu/vela/, not tests) that BREAKS this property while (a) the package still imports and (b) the existing test suite gives exactly the same pass/fail results as before (the same 4 failures, nothing new). The change must be realistic - the kind of slip a maintainer could make in a refactor, optimisation or "cleanup" (an off-by-one, a wrong rounding direction, a swapped operand, a dropped special case, a condition that is too weak or too strong, a stale cached value, two sites that each look fine alone but disagree...). It must need something SPECIFIC to manifest - an unusual input/geometry/value, a particular sequence of operations, a particular configuration, a boundary value - not something that ordinary use would expose immediately. Keep it small (a few lines, one or two sites). Do not add debugging hooks, environment-variable switches, or anything that looks planted; do not edit tests.

Also produce a DEMONSTRATION: a small stand-alone Python program {W}/demo_{pid}.py (plain script using the project's real functions/classes; exit status 0 = property holds for the demo's input, non-zero = property violated, printing what went wrong) that FAILS with your change and PASSES without it. Verify both yourself: run the demo with the change applied; then `git diff > {W}/patch.diff && git checkout -- ethosu` and run it on the original code; then re-apply. Also run the full test suite with the change applied and confirm only the 4 pre-existing failures.

If you can, produce TWO different changes (different functions / different failure mechanisms), as patch_1.diff + demo_{pid}_1.py and patch_2.diff + demo_{pid}_2.py; otherwise one is fine (patch_1.diff, demo_{pid}_1.py). Each patch must apply on its own to the pristine tree with `git apply`.

Deliverables, all left in {W}/ with the working tree restored to pristine at the end (git checkout -- ethosu; the patch/demo/notes files stay untracked):
  patch_N.diff   (output of `git diff` for change N, relative to the worktree root)
  demo_{pid}_N.py
  notes_N.md     (what the change is, which clause of the property it breaks, exactly what it needs in order to manifest, the commands you ran and their outcomes)
In your final message, summarise each change in 3-5 lines.
"""
    if rnd > 1:
        fns = sorted(excl.get(pid, []))
        txt += f"""

ADDITIONAL CONSTRAINT FOR THIS ROUND: {rnd - 1} earlier round(s) have already produced changes inside these functions/sites, so yours must be somewhere else (a different function, ideally a different mechanism or a different clause of the property): {', '.join(fns)}. Look for the less obvious places: helper functions called by the anchored code, default values and table entries, data-type or layout special cases, second/third iterations of loops, error paths that should fire but would silently not, interactions between two functions that each stay individually plausible. Prefer changes whose effect needs a rare combination (a specific accelerator configuration, a boundary value, an unusual but legal operand type or layout, a second call, an ordering of operations). The current HEAD of the worktree already contains several recent bug-fix commits on top of the pinned snapshot (see `git log`); do not revert those fixes - that does not count. Prefer demonstrations that call the affected functions directly; a full compilation is possible but slow to set up (no .tflite files are available; graphs have to be built with the project's own Graph/Operation/Tensor classes).
"""
    open(f'{out}/{pid}.txt', 'w').write(txt)
print("wrote", len(CLAIMED), "prompts to", out)
