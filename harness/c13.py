"""C13 - a structurally valid model either compiles or is rejected with a diagnosis (a lemma set on kernels where an internal exception is an
arithmetic event a solver can find; totality of the whole driver is outside).

buffering_arith  : the REAL Scheduler.propose_operator_buffering with the schedule's memory snapshot holding NumPy fixed-width values (what
                   LiveRangeGraph.get_temporal_memory_usage produces; the element type is read from the live code) and a SYMBOLIC staging limit,
                   reference memory usage and time index: no internal exception (under NumPy >= 2 a Python int that does not fit the NumPy
                   operand's type raises OverflowError - the package declares an unpinned numpy), and the slack equals limit - usage.
snapshot_dtype   : the element type get_temporal_memory_usage really returns (concrete; feeds the lemma above).
constraints_total: placement constraint functions return a verdict - never raise - for every operator geometry with positive dimensions:
                   a constraint that raises takes the whole compilation down where the operator should merely stay on the CPU.
main_errors      : vela.main() turns every VelaError subclass raised below it into a printed message and a non-zero status and lets nothing escape.
"""
import contextlib
import io

import z3

from symx import core, npint
from symx.core import SInt, L, B

EXPLANATION = ("C13 lemma set: scheduler buffering arithmetic on NumPy-typed memory snapshots never raises; placement constraints are total on "
               "positive geometries; main() converts every VelaError into a status.")
BOUNDS = {"buffering_arith": "staging limit 0..2^33 (the scheduler itself passes 1 << 32), reference usage any value of the snapshot's element type, "
                             "time index inside or outside the snapshot",
          "constraints_total": "dimensions 1..70000, strides 1..12, kernels 1..300; ranks as enumerated"}
ASSUMPTIONS = ["NumPy >= 2 promotion rules (NEP 50) as modelled by symx.npint and validated against the installed NumPy in every run",
               "operators handed to a supported-operator constraint passed the semantic constraints that run before it (rank <= 4, shapes defined)"]
OUTSIDE = ["totality of reader, graph optimiser, scheduler search, allocator and writer over all models; option parsing of the command line"]
SHIMS = ["scheduler: memory_snapshot elements are SNp proxies of the dtype the live code uses; propose_weight_buffering is not reached (no weights)"]


def ENCODED():
    import ethosu.vela.npu_performance  # noqa: F401
    import ethosu.vela.scheduler as sch
    import ethosu.vela.live_range as lr
    import ethosu.vela.tflite_supported_operators as so
    import ethosu.vela.vela as vela

    T = so.TFLiteSupportedOperators
    return [sch.Scheduler.propose_operator_buffering, lr.LiveRangeGraph.get_temporal_memory_usage, T.constraint_resize,
            T.constraint_resizebi_half_pixel_centers_dims, T.constraint_stride_width_no_upper_limit, T.constraint_broadcast_shapes,
            T.constraint_tconv_same, T.constraint_tconv_valid, T.constraint_depth_multiplier, vela.main,
            __import__("ethosu.vela.tflite_graph_optimiser", fromlist=["x"]).optimise_quantize,
            __import__("ethosu.vela.tflite_graph_optimiser", fromlist=["x"]).convert_shape_op_to_constant_tensor,
            __import__("ethosu.vela.tflite_graph_optimiser", fromlist=["x"]).convert_resize_to_upscale_and_average_pool,
            __import__("ethosu.vela.tflite_graph_optimiser", fromlist=["x"]).convert_resizenn_ac_to_depthwise_conv,
            __import__("ethosu.vela.tensor", fromlist=["x"]).QuantizationParameters.is_per_axis,
            __import__("ethosu.vela.tensor", fromlist=["x"]).QuantizationParameters.is_scaling_equal,
            T.constraint_tens_quant_per_axis, T.constraint_matching_quantization_parameters,
            __import__("ethosu.vela.tflite_reader", fromlist=["x"]).TFLiteSubgraph.parse_tensor]


class _O:
    def __init__(self, **kw):
        self.__dict__.update(kw)


def _snapshot_dtype():
    """element type of the memory snapshot, taken from the live code (concrete run of the real function on a stand-in live range)"""
    import numpy as np
    import ethosu.vela.live_range as lr
    from ethosu.vela.tensor import MemArea

    g = lr.LiveRangeGraph()
    g.lrs.append(_O(mem_area=MemArea.Sram, start_time=0, end_time=1, size=16))
    g.current_time = 2
    u = g.get_temporal_memory_usage(MemArea.Sram)
    return np.dtype(u.dtype).name, [int(x) for x in u]


def snapshot_dtype(V):
    V.int("unused", 0, 0)
    name, vals = _snapshot_dtype()
    return [("the snapshot is an integer array", name in ("int32", "int64", "uint32", "uint64")),
            ("a live range of 16 bytes alive at t=0..1 is counted at t=0 and t=1", vals[:3] == [16, 16, 0])]


def buffering_arith(V):
    import ethosu.vela.npu_performance  # noqa: F401
    import ethosu.vela.scheduler as sch

    dt, _ = _snapshot_dtype()
    usage = V.extra("np", "ref_memory_usage", dt)
    limit = V.extra("big", "staging_limit_bytes", 0, 1 << 33)  # a Python int (bit-vector backed: it meets NumPy operands)
    tidx = V.int("time_index", 0, 3)
    if V.symbolic:
        V.assume(usage.bv >= 0)
    elif int(usage) < 0:
        raise core.PathAbort("negative usage")

    class Snap(list):
        """the snapshot: a 2-element array whose entry at the operator's time index is the symbolic usage"""

        def __getitem__(self, i):
            return usage

    snap = Snap([0, 0])
    sched_op = _O(parent_op=_O(weights=None, bias=None), evicted_fms_size=0, name="op")
    ref_cost = _O(time_index=tidx, cycles=_O(op_cycles=100), slack_buffering_cycles=0, slack_buffering_memory=0)
    ref = _O(cost_map={sched_op: ref_cost}, memory_snapshot=snap)
    buffered = _O(cost_map={})
    me = _O()
    try:
        with core.shims((sch, {"len": lambda x: 2 if isinstance(x, Snap) else len(x), "int": npint.sint_shim})):
            cost = sch.Scheduler.propose_operator_buffering(me, sched_op, None, buffered, ref, limit)
    except (OverflowError, ArithmeticError, TypeError, ValueError) as e:
        return [("no internal exception in the buffering arithmetic (%s)" % type(e).__name__, False)]
    slack = cost.slack_buffering_memory
    inside = L(tidx) < 2
    # stated on bit-vectors (104 bits, no wrap-around possible at these magnitudes): mixing Int and BV terms is two orders of magnitude slower
    want = z3.If(inside, npint.wide(limit) - npint.wide(usage), npint.wide(limit))
    return [("no internal exception in the buffering arithmetic", True),
            ("slack == staging limit - memory in use at the operator's time", npint.wide(slack) == want)]


def npint_int(x):
    """mathematical integer value of a proxy / NumPy scalar / int"""
    if isinstance(x, npint.SNp):
        return z3.BV2Int(x.bv, x.signed)
    if isinstance(x, npint.SBig):
        return z3.BV2Int(x.bv, True)
    if isinstance(x, SInt):
        return x.e
    return z3.IntVal(int(x))


# ---- constraint functions are total

def _run(fn, op):
    try:
        r = fn(op)
    except core.Inconclusive:
        raise
    except Exception as e:  # noqa: BLE001 - any internal exception is the event the lemma is about
        return [("the constraint returns a verdict instead of raising (%s)" % type(e).__name__, False)]
    ok = isinstance(r, tuple) and len(r) == 2
    return [("the constraint returns a verdict instead of raising", ok)]


def t_resize(V, align, hpc, which):
    from harness.c16 import _O as Op16, _T, _mods

    so, sem, sh = _mods()
    ih, iw, oh, ow = V.int("ih", 1, 4096), V.int("iw", 1, 4096), V.int("oh", 1, 40000), V.int("ow", 1, 40000)
    T = so.TFLiteSupportedOperators
    cl = []
    with core.shims(*sh):
        op = Op16("ResizeBilinear", [_T([1, ih, iw, 8])], [_T([1, oh, ow, 8])], attrs={"align_corners": align, "half_pixel_centers": hpc})
        cl += _run(T.constraint_resize if which == "resize" else T.constraint_resizebi_half_pixel_centers_dims, op)
    return cl


def t_strides(V, padding):
    from harness.c16 import _O as Op16, _T, _mods, _padding

    so, sem, sh = _mods()
    swc = V.choice("swc", list(range(1, 13)))
    shh = V.int("sh", 1, 12)
    iw, oh, ow = V.int("iw", 1, 70000), V.int("oh", 1, 70000), V.int("ow", 1, 70000)
    T = so.TFLiteSupportedOperators
    with core.shims(*sh):
        op = Op16("AvgPool", [_T([1, 8, iw, 8])], [_T([1, oh, ow, 8])], attrs={"strides": (1, shh, swc, 1), "padding": _padding(padding)})
        return _run(T.constraint_stride_width_no_upper_limit, op) + _run(T.constraint_stride_range_no_padding, op)


def t_broadcast(V, r1, r2, ro):
    from harness.c16 import _O as Op16, _T, _mods

    so, sem, sh = _mods()
    a = [V.int("a%d" % i, 1, 70000) for i in range(r1)]
    b = [V.int("b%d" % i, 1, 70000) for i in range(r2)]
    o = [V.int("o%d" % i, 1, 70000) for i in range(ro)]
    with core.shims(*sh):
        op = Op16("Add", [_T(list(a))], [_T(list(o))], ifm2=_T(list(b)))
        return (_run(so.TFLiteSupportedOperators.constraint_broadcast_shapes, op) + _run(so.TFLiteSupportedOperators.constraint_batch_size, op)
                + _run(sem.TFLiteSemantic.constraint_matching_either_shapes, op))


def t_tconv(V, padding):
    from harness.c16 import _O as Op16, _T, _K, _mods, _padding

    so, sem, sh = _mods()
    sw, shh = V.int("sw", 1, 3), V.int("sh", 1, 3)
    kw, kh = V.int("kw", 1, 300), V.int("kh", 1, 300)
    ih, iw, oh, ow = V.int("ih", 1, 70000), V.int("iw", 1, 70000), V.int("oh", 1, 70000), V.int("ow", 1, 70000)
    T = so.TFLiteSupportedOperators
    with core.shims(*sh):
        op = Op16("Conv2DBackpropInput", [_T([1, ih, iw, 8])], [_T([1, oh, ow, 8])], kernel=_K(kw, kh, sw, shh, 1, 1), attrs={"padding": _padding(padding)})
        return _run(T.constraint_tconv_stride, op) + _run(T.constraint_tconv_same, op) + _run(T.constraint_tconv_valid, op)


# ---- main() and VelaError

def main_errors(V):
    import ethosu.vela.vela as vela
    import ethosu.vela.errors as errors

    classes = [getattr(errors, n) for n in sorted(vars(errors)) if isinstance(getattr(errors, n), type) and issubclass(getattr(errors, n), errors.VelaError)]
    cls = V.choice("error_class", classes)

    def make():
        for args in (("msg",), ("a", "msg"), ("a", "b", "msg"), ()):
            try:
                return cls(*args)
            except TypeError:
                continue
        raise core.Unmodelled("cannot construct %s" % cls.__name__)

    exc = make()

    def boom(*a, **k):
        raise exc

    saved = vela.process
    vela.process = boom
    buf = io.StringIO()
    try:
        with contextlib.redirect_stdout(buf), contextlib.redirect_stderr(io.StringIO()):
            rc = vela.main(["net.tflite", "--accelerator-config", "ethos-u65-256"])
    except BaseException as e:  # noqa: BLE001
        if isinstance(e, (core.PathAbort, core.Infeasible, core.Inconclusive, core.EngineError)):
            raise
        return [("main() lets no %s escape" % cls.__name__, False)]
    finally:
        vela.process = saved
    return [("a %s becomes a non-zero status" % cls.__name__, isinstance(rc, int) and rc != 0),
            ("the error is reported on the console", len(buf.getvalue().strip()) > 0)]


def t_c16(V, fn, params):
    """a constraint lemma of harness/c16.py run for totality only: whatever the verdict, the constraint functions it drives must not raise on the
    operator geometries of that lemma (an exception inside them is an exception inside the compiler)"""
    from harness import c16

    try:
        cl = c16.FUNCS[fn](V, **params)
    except (core.PathAbort, core.Infeasible, core.Inconclusive, core.EngineError):
        raise
    except Exception as e:  # noqa: BLE001
        return [("the constraint functions return verdicts instead of raising (%s: %s)" % (type(e).__name__, str(e)[:80]), False)]
    return [("the constraint functions return verdicts instead of raising", cl is not None)]


def main_config(V, **params):
    """every way of naming a configuration file on the command line ends in a compilation or a diagnosis (harness/c18.py main_cli: the real main()
    up to the architecture object, file system answered by a symbolic Boolean) - an exception other than VelaError escaping main() is a traceback"""
    from harness import c18

    cl = c18.main_cli(V, **params)
    bad = [c for c in cl if "internal" in c[0]]
    return bad or [("main() ends with a status or a diagnosis", True)]


def t_quant_scales(V):
    """the constraints on quantisation scales cope with every representation a model file yields: a scalar (Python float or np.float32) or a
    per-axis vector of one or several entries, for input and output independently, with ordinary, tiny, huge and infinite values: they return a
    verdict - the scales of a per-axis quantised tensor are an array, and the truth value of an array raises"""
    import numpy as np
    from harness.c16 import _mods, _T

    so, sem, sh = _mods()
    vals = {"one": 1.0, "tiny": 1e-45, "huge": 3e38, "inf": float("inf")}

    def scale(tag):
        form = V.choice(tag + "_form", ["float", "float32", "vector1", "vector2", "vector3"])
        v = vals[V.choice(tag + "_value", sorted(vals))]
        if form == "float":
            return v
        if form == "float32":
            return np.float32(v)
        return np.array([v] + [0.5] * (int(form[-1]) - 1), dtype=np.float32)

    class Q:
        def __init__(self, s):
            self.scale_f32, self.zero_point = s, 0

    class T(_T):
        def is_quantized(self):
            return True

    ifm, ofm = T([1, 4, 4, 3]), T([1, 4, 4, 3])
    ifm.quantization, ofm.quantization = Q(scale("ifm")), Q(scale("ofm"))
    op = _O(ifm=ifm, ifm2=None, ofm=ofm, weights=None, get_ifm_ifm2_weights_ofm=lambda: (ifm, None, None, ofm), name="op")
    S = sem.TFLiteSemantic
    import warnings

    with warnings.catch_warnings():
        warnings.simplefilter("ignore")
        return _run(S.constraint_quant_scale_inf, op) + _run(S.constraint_tens_quant_scale, op)


def purpose_total(V, nops):
    """'Defining tensor purpose' never aborts: the REAL rewrite_mark_tensor_purpose over every order of `nops` operators that share one constant -
    each operator uses it either as weights or as an ordinary operand (symbolic choice per operator) - ends without the internal
    'Cannot resolve tensor purpose' assertion: the first consumer fixes the purpose, later ones accept it."""
    import ethosu.vela.mark_tensors as mt
    from ethosu.vela.operation import Op
    from ethosu.vela.tensor import Tensor, TensorPurpose, TensorFormat
    from ethosu.vela.data_type import DataType
    from harness.c04 import arch_for

    arch = arch_for("Ethos_U55_128")
    shared = Tensor([4, 4], DataType.int8, "shared_constant")
    shared.ops = [_O(type=Op.Const, ofm=shared)]
    ops = []
    for i in range(nops):
        as_weights = bool(V.bool("op%d_uses_it_as_weights" % i))
        x = Tensor([1, 4], DataType.int8, "x%d" % i)
        y = Tensor([1, 4], DataType.int8, "y%d" % i)
        y.consumer_list = [object()]
        op = _O(type=Op.FullyConnected if as_weights else Op.Add, inputs=[x, shared], outputs=[y], ifm=x, ofm=y, attrs={},
                get_weight_tensors=(lambda: [shared]) if as_weights else (lambda: []))
        ops.append(op)
    try:
        for op in ops:
            mt.rewrite_mark_tensor_purpose(op, arch)
    except AssertionError as e:
        return [("tensor purposes are resolved without an internal assertion (%s)" % str(e)[:60], False)]
    return [("tensor purposes are resolved without an internal assertion", shared.purpose in (TensorPurpose.Weights, TensorPurpose.FeatureMap))]


def writer_total(V):
    """writing a constant operand never aborts: the REAL TFLiteSerialiser.serialise_tensor for every rank (0, 1, 2) and element type a model can
    carry (symbolic choice), with and without quantisation parameters: the constant's bytes are stored with exactly its size in bytes."""
    import numpy as np
    import ethosu.vela.tflite_writer as tw
    from ethosu.vela.tensor import Tensor, QuantizationParameters
    from ethosu.vela.data_type import DataType

    rank = V.choice("rank", [0, 1, 2])
    # every element type the reader can hand over with constant data (its two type tables), not a hand-picked list
    from ethosu.vela.tflite_mapping import datatype_map, datatype_map_numpy

    table = {str(datatype_map[c]): (datatype_map[c], datatype_map_numpy[c]) for c in sorted(datatype_map) if datatype_map_numpy.get(c) is not None
             and str(datatype_map[c]) != "string"}
    dname = V.choice("dtype", sorted(table))
    quantised = bool(V.bool("has_quantisation"))
    dt, npdt = table[dname]
    shape = [3] * rank
    t = Tensor(shape, dt, "c")
    t.values = np.ones(shape, dtype=npdt) if rank else np.array(1, dtype=npdt)
    if quantised:
        q = QuantizationParameters()
        q.scale_f32, q.zero_point = np.float32(0.5), 0
        t.quantization = q
    ser = tw.TFLiteSerialiser(_O(subgraphs=[], metadata=[]))
    ser.buffer_map = {t: 1}
    ser.buffers_to_write = [None, None]
    try:
        ser.serialise_tensor(t)
    except Exception as e:  # noqa: BLE001
        if isinstance(e, (core.PathAbort, core.Infeasible)):
            raise
        return [("a constant of rank %d and type %s is written without an internal %s" % (rank, dname, type(e).__name__), False)]
    buf = ser.buffers_to_write[1]
    return [("the constant is written", buf is not None), ("with exactly its bytes", buf is not None and int(buf.size) == int(t.values.size) * int(np.dtype(npdt).itemsize)
             and buf.ndim == 1)]


def summary_total(V):
    """the console summary with --show-cpu-operations copes with every operator the graph can hold: the REAL print_performance_metrics_for_strat with
    CPU and NPU operator lists whose operators have optional inputs that are absent (None - a bias-less FULLY_CONNECTED, unused LSTM inputs;
    symbolic choice per input): it prints and does not raise."""
    import io
    import numpy as np
    import ethosu.vela.stats_writer as sw
    from ethosu.vela.npu_performance import PassCycles
    from ethosu.vela.tensor import MemArea, TensorPurpose, BandwidthDirection
    from ethosu.vela.operation import Op
    from harness.c04 import arch_for

    arch = arch_for("Ethos_U55_128")
    cycles = np.zeros(PassCycles.Size)
    cycles[PassCycles.Total] = 1000.0
    bws = np.zeros((MemArea.Size, TensorPurpose.Size, BandwidthDirection.Size))
    bws[MemArea.Sram, TensorPurpose.FeatureMap, BandwidthDirection.Read] = 10.0
    t = lambda: _O(shape=[1, 4])  # noqa: E731

    def mkop(tag):
        ins = [t() if not bool(V.bool("%s_input%d_absent" % (tag, i))) else None for i in range(3)]
        return _O(type=Op.FullyConnected, name=tag, inputs=ins, outputs=[t()])

    cpu, npu = [mkop("cpu_op")], [mkop("npu_op")]
    buf = io.StringIO()
    import contextlib

    try:
        with contextlib.redirect_stdout(io.StringIO()):
            sw.print_performance_metrics_for_strat(arch, "net", cycles, 12345.0, bws, 1, {MemArea.Sram: 1024}, cpu, npu, True, None, buf)
    except Exception as e:  # noqa: BLE001
        if isinstance(e, (core.PathAbort, core.Infeasible)):
            raise
        return [("the summary is printed without an internal %s" % type(e).__name__, False)]
    return [("the summary is printed", "CPU operators" in buf.getvalue())]  # (the per-operator lines go to stdout, not to `f`)


def fold_disconnect(V, kind):
    """folding an operator into a constant at compile time (SHAPE; QUANTIZE of a constant) never aborts and detaches exactly that operator: the
    REAL convert_shape_op_to_constant_tensor / optimise_quantize on real Operation / Tensor objects whose input tensor has a symbolic consumer
    list - the folded operator alone, or together with another operator and / or the None entry that marks a tensor that is also an output of
    the subgraph, in every order.  Claims: no internal exception; afterwards the operator is a constant without inputs and the tensor's
    consumer list is the old one minus the folded operator (the subgraph-output marker and the other reader stay)."""
    import itertools
    import numpy as np
    import ethosu.vela.tflite_graph_optimiser as go
    from ethosu.vela.operation import Op, Operation
    from ethosu.vela.tensor import Tensor, QuantizationParameters
    from ethosu.vela.data_type import DataType

    def quant(scale):
        q = QuantizationParameters()
        q.scale_f32, q.zero_point, q.quant_min, q.quant_max = np.float32(scale), 0, -128, 127
        return q

    shape = [1, 2, 2, 2]
    if kind == "shape":
        ifm = Tensor(shape, DataType.int8, "y")
        ifm.quantization = quant(0.25)
        Operation(Op.Relu, "producer").set_output_tensor(ifm)
        op = Operation(Op.Shape, "folded")
        ofm = Tensor([4], DataType.int32, "s")
    else:
        dt = DataType.int8 if kind == "quantize_int8" else DataType.float32
        ifm = Tensor(shape, dt, "c")
        ifm.values = np.ones(shape, dtype=np.int8 if kind == "quantize_int8" else np.float32)
        ifm.quantization = quant(0.25)
        Operation(Op.Const, "const").set_output_tensor(ifm)
        op = Operation(Op.Quantize, "folded")
        ofm = Tensor(shape, DataType.int8, "q")
        ofm.quantization = quant(0.5)
    op.op_index = 1
    op.add_input_tensor(ifm)
    op.set_output_tensor(ofm)
    op.run_on_npu = True
    other = Operation(Op.Abs, "other reader")
    other.op_index = 2
    members = V.choice("the tensor is also read by", ("nobody else", "another operator", "the subgraph's outputs", "another operator and the subgraph's outputs"))
    extra = {"nobody else": [], "another operator": [other], "the subgraph's outputs": [None],
             "another operator and the subgraph's outputs": [other, None]}[members]
    orders = sorted(set(itertools.permutations([op] + extra)), key=lambda p: [("folded", "other", "None")[0 if x is op else 1 if x is other else 2] for x in p])
    order = orders[V.choice("order of the consumer list", tuple(range(len(orders))))] if len(orders) > 1 else orders[0]
    ifm.consumer_list = list(order)
    fn = go.convert_shape_op_to_constant_tensor if kind == "shape" else go.optimise_quantize
    try:
        fn(op, None, None)
    except Exception as e:  # noqa: BLE001
        if isinstance(e, (core.PathAbort, core.Infeasible)):
            raise
        return [("folding a %s whose input is also read by %s ends without an internal %s (%s)" % (kind, members, type(e).__name__, e), False)]
    want = [c for c in order if c is not op]
    got = list(ifm.consumer_list)
    return [("the folded operator is a constant without inputs", op.type == Op.Const and op.inputs == []),
            ("the input keeps its other readers, in order (%s)" % members, len(got) == len(want) and all(a is b for a, b in zip(got, want)))]


def t_per_axis(V):
    """array-valued quantisation parameters never reach code written for scalars: real Tensor / QuantizationParameters on a MAXIMUM (an operator
    without per-axis support) whose input and output scale AND zero point are, independently, a scalar, a one-element vector or a longer vector
    (symbolic choices).  The REAL per-axis gate (constraint_tens_quant_per_axis, a generic constraint and so evaluated first) rejects the
    operator exactly when some parameter has more than one value; whenever it lets the operator through, the constraints behind it that compare
    the parameters (constraint_matching_quantization_parameters, constraint_matching_in_out_quant) return a verdict - the truth value of a
    longer array raises ValueError, which is not a Vela error."""
    import warnings
    import numpy as np
    from harness.c16 import _mods
    from ethosu.vela.operation import Op
    from ethosu.vela.tensor import Tensor, QuantizationParameters
    from ethosu.vela.data_type import DataType

    so, sem, sh = _mods()
    forms = ("scalar", "vector of one", "vector of three")
    longer = []

    def value(tag, v, dt):
        f = V.choice(tag, forms)
        if f == "scalar":
            return dt(v)
        if f == "vector of three":
            longer.append(tag)
        return np.array([v] * (1 if f == "vector of one" else 3), dtype=dt)

    def tensor(name):
        t = Tensor([1, 4, 4, 3], DataType.int8, name)
        q = QuantizationParameters()
        q.scale_f32, q.zero_point = value(name + " scale", 0.5, np.float32), value(name + " zero point", 3, np.int64)
        q.quant_min, q.quant_max = -128, 127
        t.quantization = q
        return t

    ifm, ofm = tensor("ifm"), tensor("ofm")
    op = _O(type=Op.Maximum, ifm=ifm, ifm2=None, ofm=ofm, weights=None, inputs=[ifm], outputs=[ofm], get_ifm_ifm2_weights_ofm=lambda: (ifm, None, None, ofm), name="op")
    T, S = so.TFLiteSupportedOperators, sem.TFLiteSemantic
    with warnings.catch_warnings():
        warnings.simplefilter("ignore")
        try:
            gate, _ = T.constraint_tens_quant_per_axis(op)
        except Exception as e:  # noqa: BLE001
            if isinstance(e, (core.PathAbort, core.Infeasible)):
                raise
            return [("the per-axis gate returns a verdict instead of raising (%s)" % type(e).__name__, False)]
        cl = [("the per-axis gate rejects exactly the operators with a parameter of more than one value (here: %s)" % (", ".join(longer) or "none"),
               bool(gate) == (not longer))]
        if gate:
            cl += _run(T.constraint_matching_quantization_parameters, op) + _run(S.constraint_matching_in_out_quant, op)
    return cl


def t_resize_lowering(V, **params):
    """lowering a supported RESIZE (bilinear / nearest neighbour, with and without align_corners, x2 / x4 / x8, 8 channels, symbolic height and
    width) to x2 stages ends without an internal exception (harness/c02.py resize_lowering: the real convert_resize_to_upscale_and_average_pool
    incl. the depthwise selection kernel of the align_corners nearest-neighbour case)"""
    from harness import c02

    try:
        c02.resize_lowering(V, **params)
    except Exception as e:  # noqa: BLE001
        if isinstance(e, (core.PathAbort, core.Infeasible, core.Inconclusive)):
            raise
        return [("the lowering ends without an internal %s (%s)" % (type(e).__name__, e), False)]
    return [("the lowering ends without an internal exception", True)]


def tensor_types_total(V):
    """reading a tensor never aborts: the REAL TFLiteSubgraph.parse_tensor for every element type of the schema's TensorType enumeration (symbolic
    choice), with a constant buffer behind it or not, quantised or not, rank 0..2: it returns a tensor (or raises a Vela error) - an element type
    missing from one of the reader's two type tables is a KeyError, which main() does not turn into a diagnosis."""
    import numpy as np
    import ethosu.vela.tflite_reader as tr
    from ethosu.vela.errors import VelaError
    from ethosu.vela.tflite.TensorType import TensorType

    types = tuple(sorted(n for n in vars(TensorType) if n.isupper()))
    tname = V.choice("tensor type", types)
    constant = V.choice("tensor is a constant", (True, False))
    quantised = V.choice("quantised", (True, False))
    rank = V.choice("rank", (0, 1, 2))
    shape = [2] * rank
    code = getattr(TensorType, tname)

    class Quant:
        def MinAsNumpy(self):
            return 0

        MaxAsNumpy = MinAsNumpy

        def ScaleAsNumpy(self):
            return np.array([0.5], dtype=np.float32)

        def ZeroPointAsNumpy(self):
            return np.array([0], dtype=np.int64)

        def QuantizedDimension(self):
            return 0

    class TensData:
        def ShapeAsNumpy(self):
            return np.array(shape, dtype=np.int32) if rank else 0

        def Name(self):
            return b"t"

        def Type(self):
            return code

        def Quantization(self):
            return Quant() if quantised else None

        def IsVariable(self):
            return False

        def Buffer(self):
            return 1 if constant else 0

    size = {"FLOAT32": 4, "FLOAT16": 2, "INT32": 4, "UINT8": 1, "INT64": 8, "STRING": 1, "BOOL": 1, "INT16": 2, "COMPLEX64": 8, "INT8": 1, "FLOAT64": 8,
            "COMPLEX128": 16, "UINT64": 8, "UINT32": 4, "UINT16": 2}
    n = 2 ** rank
    if constant and tname in ("RESOURCE", "VARIANT"):
        return None  # handles, never constants
    nbytes = (n + 1) // 2 if tname == "INT4" else n * size.get(tname, 1)  # TFLite packs two 4-bit values per byte
    me = _O(graph=_O(buffers=[None, np.zeros(nbytes, dtype=np.uint8)]), len1_array_to_scalar=tr.TFLiteSubgraph.len1_array_to_scalar)
    fid = "C13-int4-constant-tensor-keyerror"
    tag = "[%s] " % fid if (tname == "INT4" and constant) else ""
    try:
        t = tr.TFLiteSubgraph.parse_tensor(me, TensData())
    except VelaError:
        return [("a tensor the reader cannot represent is reported as a Vela error", True)]
    except (ValueError, TypeError) as e:
        # 64 bytes that are not a whole number of elements of this shape: main() reports struct/Type/Runtime errors of the reader as 'Invalid tflite file'
        return None if isinstance(e, TypeError) else [("%sa %s tensor (constant: %s) is read without an internal ValueError (%s)" % (tag, tname, constant, e), V.except_finding(fid, tname == "INT4" and constant, False))]
    except Exception as e:  # noqa: BLE001
        if isinstance(e, (core.PathAbort, core.Infeasible, core.Inconclusive)):
            raise
        return [("%sa %s tensor (constant: %s) is read without an internal %s (%s)" % (tag, tname, constant, type(e).__name__, e),
                 V.except_finding(fid, tname == "INT4" and constant, False))]
    return [("%sa %s tensor is read" % (tag, tname), t is not None and (t.values is not None) == constant)]


def custom_options_total(V):
    """a third-party CUSTOM operator passes through unchanged whatever its options are: the REAL CustomOptionsSerializer.deserialize on a stand-in
    flatbuffer operator whose custom options are absent (the generated accessor then returns 0) or hold 0..3 bytes (symbolic choices), followed by
    the REAL serialize: no internal exception, and the bytes written are the bytes read."""
    import numpy as np
    import flatbuffers
    import ethosu.vela.tflite_mapping as tm

    present = bool(V.bool("options_present"))
    n = V.choice("length", [0, 1, 2, 3]) if present else 0
    data = [V.choice("byte%d" % i, [0, 1, 255]) for i in range(n)]
    op_data = _O(CustomOptionsAsNumpy=lambda: (np.array(data, dtype=np.uint8) if present else 0), CustomOptionsFormat=lambda: 0)
    ser = tm.CustomOptionsSerializer()
    written = []
    saved = tm.write_byte_vector
    tm.write_byte_vector = lambda builder, v, *a: (written.append(bytes(v)), 1)[1]
    try:
        attrs = ser.deserialize(op_data)
        ser.serialize(flatbuffers.Builder(0), attrs)
    except Exception as e:  # noqa: BLE001
        if isinstance(e, (core.PathAbort, core.Infeasible)):
            raise
        return [("custom options are read and written back without an internal %s" % type(e).__name__, False)]
    finally:
        tm.write_byte_vector = saved
    return [("the bytes written are the bytes read", written == [bytes(data)])]


FUNCS = {"tensor_types_total": tensor_types_total, "t_resize_lowering": t_resize_lowering, "t_per_axis": t_per_axis, "fold_disconnect": fold_disconnect, "custom_options_total": custom_options_total, "summary_total": summary_total, "writer_total": writer_total, "purpose_total": purpose_total, "t_quant_scales": t_quant_scales, "main_config": main_config, "t_c16": t_c16, "snapshot_dtype": snapshot_dtype, "buffering_arith": buffering_arith, "t_resize": t_resize, "t_strides": t_strides, "t_broadcast": t_broadcast,
         "t_tconv": t_tconv, "main_errors": main_errors}


def instances(tier, seed):
    out = [dict(key="snapshot_dtype", fn="snapshot_dtype", params={}), dict(key="buffering_arith", fn="buffering_arith", params={}),
           dict(key="main_errors", fn="main_errors", params={})]
    for align in (False, True):
        for hpc in (False, True):
            for which in ("resize", "hpc"):
                out.append(dict(key="constraints_total/%s/align_%s/hpc_%s" % (which, align, hpc), fn="t_resize", params=dict(align=align, hpc=hpc, which=which)))
    for p in ("SAME", "VALID", "NONE"):
        out.append(dict(key="constraints_total/strides/%s" % p, fn="t_strides", params=dict(padding=p)))
    for r1, r2, ro in ((4, 4, 4), (4, 1, 4), (1, 4, 4), (3, 2, 3), (2, 4, 4), (4, 2, 2), (1, 1, 4)):
        out.append(dict(key="constraints_total/broadcast/%d_%d_%d" % (r1, r2, ro), fn="t_broadcast", params=dict(r1=r1, r2=r2, ro=ro)))
    for p in ("SAME", "VALID"):
        out.append(dict(key="constraints_total/tconv/%s" % p, fn="t_tconv", params=dict(padding=p)))
    out.append(dict(key="constraints_total/quant_scales", fn="t_quant_scales", params={}))
    out.append(dict(key="writer_total", fn="writer_total", params={}))
    out.append(dict(key="summary_total", fn="summary_total", params={}))
    out.append(dict(key="custom_options_total", fn="custom_options_total", params={}))
    out.append(dict(key="t_per_axis", fn="t_per_axis", params={}))
    out.append(dict(key="tensor_types_total", fn="tensor_types_total", params={}))
    for kind in ("bilinear", "bilinear_align_corners", "nearest", "nearest_align_corners"):
        for factor in (2, 4, 8):
            out.append(dict(key="t_resize_lowering/%s/x%d" % (kind, factor), fn="t_resize_lowering", params=dict(kind=kind, factor=factor)))
    for k in ("shape", "quantize_int8", "quantize_float"):
        out.append(dict(key="fold_disconnect/%s" % k, fn="fold_disconnect", params=dict(kind=k)))
    for n in (2, 3):
        out.append(dict(key="purpose_total/%d" % n, fn="purpose_total", params=dict(nops=n)))
    from harness import c16, c18

    for inst in c18.instances(tier, seed):
        if inst["fn"] == "main_cli":
            out.append(dict(key="main_config/" + inst["key"], fn="main_config", params=inst["params"]))
    for inst in c16.instances(tier, seed):
        if inst["fn"] in ("c_mean", "c_argmax", "c_transpose", "s_split", "s_concat", "s_slice_ranges", "s_conv_groups", "s_mean_axis", "c_depth_multiplier", "c_filter", "c_simple", "c_facts", "c_lstm", "c_dtypes"):
            out.append(dict(key="constraints_total/c16/" + inst["key"], fn="t_c16", params=dict(fn=inst["fn"], params=inst["params"])))
    return out
