"""SRat: exact rational results of `int / int` (true division) on symbolic ints.

Python's int/int is correctly rounded to float64.  Every use in the code under test divides a bounded
integer by a small constant power of two (or compares / ceils the result), for which the float64
result is exact whenever |numerator| < 2^53.  SRat keeps the exact rational and records that side
condition; harnesses assert it through `exactness_obligations()`.
"""
import builtins
import math
from fractions import Fraction

import z3

from . import core
from .core import SBool, SInt, lift, Unmodelled


OBLIGATIONS = []  # z3 Bools that must hold for the rational model to equal the float computation


def exactness_obligations():
    r = list(OBLIGATIONS)
    OBLIGATIONS.clear()
    return r


def _real(x):
    if isinstance(x, SRat):
        return x.e
    l = lift(x)
    if l is not None:
        return z3.ToReal(l)
    if isinstance(x, float):
        f = Fraction(x)
        return z3.RealVal(f.numerator) / z3.RealVal(f.denominator)
    return None


class SRat:
    __slots__ = ("e",)
    __sym__ = True

    def __init__(self, e):
        self.e = e

    def _b(s, o, f):
        r = _real(o)
        if r is None:
            return NotImplemented
        return SRat(f(s.e, r))

    def _rb(s, o, f):
        r = _real(o)
        if r is None:
            return NotImplemented
        return SRat(f(r, s.e))

    def __add__(s, o):
        return s._b(o, lambda a, b: a + b)

    __radd__ = __add__

    def __sub__(s, o):
        return s._b(o, lambda a, b: a - b)

    def __rsub__(s, o):
        return s._rb(o, lambda a, b: a - b)

    def __mul__(s, o):
        return s._b(o, lambda a, b: a * b)

    __rmul__ = __mul__

    def __truediv__(s, o):
        return s._b(o, lambda a, b: a / b)

    def __rtruediv__(s, o):
        return s._rb(o, lambda a, b: a / b)

    def __neg__(s):
        return SRat(-s.e)

    def __floordiv__(s, o):
        r = _real(o)
        if r is None:
            return NotImplemented
        return SInt(z3.ToInt(s.e / r))  # z3 ToInt is floor

    def __rfloordiv__(s, o):
        r = _real(o)
        if r is None:
            return NotImplemented
        return SInt(z3.ToInt(r / s.e))

    def _c(s, o, f):
        r = _real(o)
        if r is None:
            return NotImplemented
        return SBool(f(s.e, r))

    def __lt__(s, o):
        return s._c(o, lambda a, b: a < b)

    def __le__(s, o):
        return s._c(o, lambda a, b: a <= b)

    def __gt__(s, o):
        return s._c(o, lambda a, b: a > b)

    def __ge__(s, o):
        return s._c(o, lambda a, b: a >= b)

    def __eq__(s, o):
        return s._c(o, lambda a, b: a == b)

    def __ne__(s, o):
        return s._c(o, lambda a, b: a != b)

    def __hash__(s):
        return 0

    def __floor__(s):
        return SInt(z3.ToInt(s.e))

    def __ceil__(s):
        return SInt(-z3.ToInt(-s.e))

    def __trunc__(s):
        return SInt(z3.If(s.e >= 0, z3.ToInt(s.e), -z3.ToInt(-s.e)))

    def __round__(s, ndigits=None):
        """Python's round() on the exact quotient: nearest integer, exact ties to the even neighbour (the float division behind an SRat is exact
        by its side obligation, so rounding the exact value is what the code computes)"""
        if ndigits is not None:
            raise Unmodelled("round(x, ndigits) on a symbolic rational")
        fl = z3.ToInt(s.e)
        frac = s.e - z3.ToReal(fl)
        up = z3.Or(frac > z3.RealVal("1/2"), z3.And(frac == z3.RealVal("1/2"), fl % 2 != 0))
        return SInt(z3.If(up, fl + 1, fl))

    def __sym_toint__(s):
        return s.__trunc__()

    def __int__(s):
        v = z3.simplify(s.e)
        if z3.is_rational_value(v):
            return int(Fraction(v.numerator_as_long(), v.denominator_as_long()))
        raise Unmodelled("int() on symbolic rational")

    def __repr__(s):
        return "SRat(%s)" % s.e

    def __format__(s, spec):
        return "<sym>"


def truediv(a, b):
    ra, rb = _real(a), _real(b)
    if ra is None or rb is None:
        return NotImplemented
    lb = lift(b)
    if lb is not None:
        z = SBool(lb == 0)
        if z:
            raise ZeroDivisionError("division by zero")
    la = lift(a)
    if la is not None:
        OBLIGATIONS.append(z3.And(la < 2**53, la > -(2**53)))
    return SRat(ra / rb)


def cmp_float(si, f, op):
    fr = Fraction(f)
    return SBool(op(z3.ToReal(si.e), z3.RealVal(fr.numerator) / z3.RealVal(fr.denominator)))


class smath:
    """stand-in for the `math` module inside modules under test (only what they use)"""

    @staticmethod
    def ceil(x):
        if isinstance(x, (SRat, SInt)):
            return x.__ceil__()
        return math.ceil(x)

    @staticmethod
    def floor(x):
        if isinstance(x, (SRat, SInt)):
            return x.__floor__()
        return math.floor(x)

    def __getattr__(self, n):
        return getattr(math, n)


SMATH = smath()
