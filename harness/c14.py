"""C14 - compilation is deterministic and independent of process history (a lemma set on the mechanisms the property names; byte-identity of whole
output files under varying hash seeds is outside).

hc_seeded    : the REAL HillClimbAllocator.allocate() with the `random` module replaced by a recording stand-in whose draws are SYMBOLIC (an arbitrary
               global generator state) until it is seeded: every draw the search makes comes after random.seed(c) with the same constant c, so the
               addresses do not depend on what used the generator before (an earlier compilation, the application embedding convert_bytes).
entry_points : `vela NETWORK` with default options, convert(NETWORK) and convert_bytes(data) build the architecture, the compiler options and the
               scheduler options from the same values (constructors replaced by recorders; readers/driver/writer stubbed).
sequence     : what an earlier use of the same process left behind does not change a later result - lemmas of the other harnesses that run the real
               code twice in one process: driver payloads for two accelerators (C17), CascadeBuilder.build_cascades twice (C03), the weight and scale
               encoding caches (C08: a request differing in one input is encoded afresh, an identical one may be reused), lookup-table identities
               (C19: equal ids iff equal contents), address ranges of a strided view analysed after a dense twin (C02/C04).
"""
import contextlib
import io

import z3

from symx import core
from symx.core import SInt, L, B

EXPLANATION = ("C14 lemma set: the hill-climb search seeds its generator before every draw (symbolic pre-state of the generator); the three entry points "
               "derive identical options; second-use-in-one-process lemmas of C02/C03/C08/C17/C19.")
BOUNDS = {"hc_seeded": "2 (thorough 3) live ranges, the whole-run cases of C05, symbolic sizes, 1 iteration (a second iteration multiplies the paths by ~10^3, measured under C05)",
          "sequence": "as in the harness each lemma comes from"}
ASSUMPTIONS = ["random.seed(c) followed by the same calls yields the same draws (CPython's Mersenne twister is deterministic)",
               "readers, compiler_driver and writers are stubs in entry_points: only the options handed to them are compared"]
OUTSIDE = ["byte identity of written files; PYTHONHASHSEED-dependent iteration orders; DebugDatabase and TensorAddressMap contents across compilations"]
SHIMS = ["hillclimb_allocation.random -> recording stand-in with symbolic draws", "vela.Imx93ArchitectureFeatures / ArchitectureFeatures / compiler_driver / model_reader / tflite_writer -> recorders"]


def ENCODED():
    import ethosu.vela.hillclimb_allocation as hc
    import ethosu.vela.vela as vela

    return [hc.HillClimbAllocator.allocate, hc.HillClimbAllocator.search, hc.HillClimbAllocator.attempt_bottleneck_fix, vela.convert, vela.convert_bytes, vela.main,
            __import__("ethosu.vela.debug_database", fromlist=["x"]).DebugDatabase.clean_db,
            __import__("ethosu.vela.debug_database", fromlist=["x"]).DebugDatabase.add_source,
            __import__("ethosu.vela.debug_database", fromlist=["x"]).DebugDatabase.add_optimised,
            __import__("ethosu.vela.debug_database", fromlist=["x"]).DebugDatabase.add_command]


def hc_seeded(V, times, aligns):
    import ethosu.vela.hillclimb_allocation as hc
    from harness import c05

    n = len(times)
    sizes = c05._sizes(V, n, hi=2**20)
    lrs = [c05._mk_lr("t%d" % i, times[i][0], times[i][1], sizes[i], aligns[i]) for i in range(n)]
    log = []
    cnt = [0]

    class R:
        @staticmethod
        def seed(x=None, *a):
            log.append(("seed", x))

        @staticmethod
        def randint(a, b):
            log.append(("draw", None))
            if a > b:
                raise ValueError("empty range")
            if a == b:
                return a
            cnt[0] += 1
            v = V.int("rnd%d" % cnt[0], a, b)
            return v.small_value(a, b) if V.symbolic else v

        def __getattr__(self, name):
            def other(*a, **k):
                log.append(("draw", name))
                raise core.Unmodelled("random.%s" % name)
            return other

    saved = hc.random
    saved_min = hc.HillClimbAllocator.MIN_ITERATIONS_IMPROVE
    # a generator object kept at module level survives from one allocation to the next: its draws are symbolic as well (arbitrary state), and they
    # only count as reproducible if THIS allocation seeds that generator first
    import random as _random

    private = {n: o for n, o in vars(hc).items() if isinstance(o, _random.Random)}

    class PR:
        def __init__(self, name):
            self.name = name

        def seed(self, x=None, *a):
            log.append(("seed", x))

        def randint(self, a, b):
            return R.randint(a, b)

        def __getattr__(self, nme):
            def other(*a, **k):
                raise core.Unmodelled("Random.%s" % nme)
            return other

    for n_ in private:
        setattr(hc, n_, PR(n_))
    hc.random = R()
    hc.HillClimbAllocator.MIN_ITERATIONS_IMPROVE = 1
    try:
        with core.shims(*c05._hc_shims()):
            hc.HillClimbAllocator(lrs, 1, 0).allocate()
    finally:
        hc.random = saved
        for n_, o in private.items():
            setattr(hc, n_, o)
        hc.HillClimbAllocator.MIN_ITERATIONS_IMPROVE = saved_min
    draws = [i for i, e in enumerate(log) if e[0] == "draw"]
    if not draws:
        return None  # the first placement was optimal: no draw, nothing to claim on this path
    seeds = [(i, e[1]) for i, e in enumerate(log) if e[0] == "seed"]
    return [("the generator is seeded before the first draw", bool(seeds) and seeds[0][0] < draws[0]),
            ("with a constant (the documented default seed 1)", bool(seeds) and seeds[0][1] == 1),
            ("and not re-seeded from anything else afterwards", all(s[1] == 1 for s in seeds))]


class _Stop(Exception):
    pass


def entry_points(V, other):
    import os
    import ethosu.vela.vela as vela
    import ethosu.vela.architecture_features as af

    V.int("unused", 0, 0)
    rec = {}

    def run(which):
        calls = {}

        def arch_rec(name):
            class A(af.ArchitectureFeatures):
                def __init__(self, *a, **k):
                    calls["arch"] = (name, dict(k))
                    self.arena_cache_size = k.get("arena_cache_size")

            return A

        class CD:
            class CompilerOptions:
                def __init__(self, *a, **k):
                    calls["compiler"] = dict(k)
                    self.output_dir = k.get("output_dir", "output")
                    self.__dict__.update(k)

            @staticmethod
            def compiler_driver(*a, **k):
                raise _Stop()

        class SCH:
            OptimizationStrategy = vela.scheduler.OptimizationStrategy

            class SchedulerOptions:
                def __init__(self, *a, **k):
                    calls["scheduler"] = dict(k)

        class MR:
            class ModelReaderOptions:
                pass

            @staticmethod
            def read_model(*a, **k):
                return object(), "tflite"

            @staticmethod
            def read_tflite_model(*a, **k):
                return object(), "tflite"

        class OS:
            path = type("P", (), {"exists": staticmethod(lambda p: True), "join": staticmethod(os.path.join), "splitext": staticmethod(os.path.splitext),
                                  "basename": staticmethod(os.path.basename), "normpath": staticmethod(os.path.normpath), "sep": os.path.sep,
                                  "isdir": staticmethod(os.path.isdir), "dirname": staticmethod(os.path.dirname), "abspath": staticmethod(os.path.abspath)})
            sep = os.sep
            R_OK = os.R_OK

            @staticmethod
            def makedirs(*a, **k):
                return None

            @staticmethod
            def access(*a, **k):
                return True

            def __getattr__(self, n):
                return getattr(os, n)

        names = ("Imx93ArchitectureFeatures", "compiler_driver", "scheduler", "model_reader", "os", "process")
        saved = {n: getattr(vela, n) for n in names}
        saved_af = vela.architecture_features.ArchitectureFeatures
        vela.Imx93ArchitectureFeatures = arch_rec("imx93")
        vela.architecture_features.ArchitectureFeatures = arch_rec("generic")
        vela.compiler_driver, vela.scheduler, vela.model_reader, vela.os = CD, SCH, MR, OS()

        def process(input_name, enable_debug_db, arch, model_reader_options, compiler_options, scheduler_options, subgraph_output):
            raise _Stop()

        vela.process = process
        try:
            with contextlib.redirect_stdout(io.StringIO()):
                try:
                    if which == "main":
                        vela.main(["net.tflite"])
                    elif which == "convert":
                        vela.convert("net.tflite")
                    else:
                        vela.convert_bytes(b"")
                except _Stop:
                    pass
        finally:
            for n in names:
                setattr(vela, n, saved[n])
            vela.architecture_features.ArchitectureFeatures = saved_af
        return calls

    a, b = run("main"), run(other)

    def norm(d, keys):
        return {k: d.get(k) for k in keys}

    cl = [("both entry points construct an architecture, compiler options and scheduler options", all(k in a and k in b for k in ("arch", "compiler", "scheduler")))]
    if not cl[0][1]:
        return cl
    cl.append(("same architecture class", a["arch"][0] == b["arch"][0]))
    for k in ("vela_config_files", "system_config", "memory_mode", "accelerator_config", "max_blockdep", "arena_cache_size"):
        cl.append(("architecture argument %s agrees" % k, a["arch"][1].get(k) == b["arch"][1].get(k)))
    for k in ("tensor_allocator",):
        # main() passes every option explicitly, convert*() rely on CompilerOptions' defaults for the rest: compare what both state
        cl.append(("compiler option %s agrees" % k, a["compiler"].get(k) == b["compiler"].get(k)))
    for k in ("optimization_strategy", "sram_target"):
        cl.append(("scheduler option %s agrees" % k, a["scheduler"].get(k) == b["scheduler"].get(k)))
    return cl


def _from(mod, fn):
    def f(V, **params):
        import importlib

        return getattr(importlib.import_module("harness." + mod), fn)(V, **params)

    f.__doc__ = "second use in one process: harness/%s.py %s" % (mod, fn)
    return f


def opcode_order(V, n):
    """the operator-code table of a written model does not depend on the iteration order of a set (which follows PYTHONHASHSEED for strings and
    enum members): the REAL TFLiteSerialiser constructor on a stand-in graph of `n` CPU operators, several of which share an operator type
    (third-party custom operators with different custom codes, one builtin at two versions), with `set` replaced by a stand-in that iterates in a
    SYMBOLIC permutation.  For every permutation the table is the same list."""
    import ethosu.vela.tflite_writer as tw
    from ethosu.vela.nn_graph import PassPlacement
    from ethosu.vela.operation import Op

    specs = [(Op.Custom, "vendor_b", 1), (Op.Custom, "vendor_a", 1), (Op.Relu, "", 1), (Op.Custom, "vendor_c", 1), (Op.Relu, "", 2)][:n]

    class T:
        def is_conv2d_op(self):
            return False

    def mkop(t, code, ver):
        o = _Obj(type=t, attrs={"custom_code": code} if code else {}, version=ver, inputs=[], ifm=None)
        return o

    ops = [mkop(*sp) for sp in specs]
    sg = _Obj(placement=PassPlacement.Cpu, passes=[_Obj(ops=ops)])
    nng = _Obj(subgraphs=[sg])

    class PermSet:
        """a set whose iteration order is arbitrary: one symbolic choice per position"""

        def __init__(self, it=()):
            self.items = []
            for x in it:
                if x not in self.items:
                    self.items.append(x)

        def __iter__(self):
            rest = list(self.items)
            out = []
            while rest:
                i = V.choice("pick%d" % len(out), list(range(len(rest)))) if len(rest) > 1 else 0
                out.append(rest.pop(i))
            return iter(out)

        def __len__(self):
            return len(self.items)

    saved = tw.TFLiteSerialiser.align_nng_inputs_to_tflite
    tw.TFLiteSerialiser.align_nng_inputs_to_tflite = lambda self, op: None
    saved_set = tw.__dict__.get("set", None)
    tw.set = PermSet  # in both modes: the replay picks the permutation the solver chose (a real set's order cannot be chosen)
    try:
        ser = tw.TFLiteSerialiser(nng)
    finally:
        tw.TFLiteSerialiser.align_nng_inputs_to_tflite = saved
        if saved_set is None:
            del tw.set
        else:
            tw.set = saved_set
    want = sorted(set((o.type, o.attrs.get("custom_code", ""), o.version) for o in ops))
    return [("the operator-code table is the same for every iteration order of the set", list(ser.operator_codes) == want)]


class _Obj:
    def __init__(self, **kw):
        self.__dict__.update(kw)


def debug_db_twice(V):
    """the debug database of a compilation does not depend on what was compiled before it in the same process: the REAL DebugDatabase (class-level
    tables) is filled for a network A of 0..3 operators (symbolic choice), cleaned with the REAL clean_db() as main() does between compilations, and
    filled for network B (two source operators with symbolic OFM sizes, an optimised operator per source operator plus one whose parent is not in
    the network, one command stream, two commands); B's four tables equal the ones B gets in a fresh database - ids restart at 0."""
    from ethosu.vela.debug_database import DebugDatabase as DB
    from ethosu.vela.operation import Op, Operation
    from ethosu.vela.tensor import Tensor
    from ethosu.vela.data_type import DataType

    n_before = V.choice("operators of the earlier compilation", (0, 1, 2, 3))
    h, w = V.int("ofm_h", 1, 4096), V.int("ofm_w", 1, 4096)

    def mkop(name, oh, ow):
        op = Operation(Op.AvgPool, name)
        op.attrs = {"ksize": (1, 2, 2, 1), "strides": (1, 1, 1, 1)}
        op.inputs = [Tensor([1, 8, 8, 4], DataType.int8, name + "_in")]
        op.set_output_tensor(Tensor([1, oh, ow, 4], DataType.int8, name + "_out"))
        return op

    def network_b():
        a, b, c = mkop("b0", h, w), mkop("b1", w, h), mkop("b2", 4, 4)
        DB.add_source(a)
        DB.add_source(b)
        DB.add_optimised(a, a)
        DB.add_optimised(b, b)
        DB.add_optimised(c, c)  # an operator created by the optimiser: its parent is not in the source network
        sid = DB.add_stream("sg")
        DB.add_command(sid, 0, a)
        DB.add_command(sid, 8, b)
        DB.set_stream_offset("sg", 64)
        return [list(map(list, t)) for t in (DB._sourceTable, DB._optimisedTable, DB._queueTable, DB._streamTable)]

    saved = {k: getattr(DB, k) for k in ("_sourceUID", "_sourceTable", "_optimisedUID", "_optimisedTable", "_queueTable", "_streamUID", "_streamTable")}
    try:
        for k in saved:  # a fresh process
            setattr(DB, k, type(saved[k])())
        alone = network_b()
        for k in saved:
            setattr(DB, k, type(saved[k])())
        for i in range(n_before):
            o = mkop("a%d" % i, 2, 2)
            DB.add_source(o)
            DB.add_optimised(o, o)
        if n_before:
            DB.add_command(DB.add_stream("sg_a"), 0, o)
        DB.clean_db()
        after = network_b()
    finally:
        for k, v in saved.items():
            setattr(DB, k, v)
    cl = []
    for name, t1, t2 in zip(("source", "optimised", "queue", "cmdstream"), alone, after):
        same_shape = len(t1) == len(t2) and all(len(r1) == len(r2) for r1, r2 in zip(t1, t2))
        cl.append(("%s table has the same rows after %d earlier operators" % (name, n_before), same_shape))
        if same_shape:
            for i, (r1, r2) in enumerate(zip(t1, t2)):
                for j, (x, y) in enumerate(zip(r1, r2)):
                    if isinstance(x, str) or isinstance(y, str):
                        cl.append(("%s[%d][%d] equal" % (name, i, j), x == y))
                    else:
                        cl.append(("%s[%d][%d] equal (ids restart at 0)" % (name, i, j), L(x) == L(y)))
    return cl


def hc_twice(V, times, aligns):
    """the same allocation problem solved twice in one process - with other users of the random module in between - gets the same addresses: the REAL
    HillClimbAllocator.allocate() with the REAL random module, symbolic sizes (the draws of the search depend on list lengths only)"""
    import random
    import ethosu.vela.hillclimb_allocation as hc
    from harness import c05

    n = len(times)
    sizes = c05._sizes(V, n, hi=2**20)
    saved_min = hc.HillClimbAllocator.MIN_ITERATIONS_IMPROVE
    hc.HillClimbAllocator.MIN_ITERATIONS_IMPROVE = 1
    res = []
    try:
        with core.shims(*c05._hc_shims()):
            for run in range(2):
                lrs = [c05._mk_lr("t%d" % i, times[i][0], times[i][1], sizes[i], aligns[i]) for i in range(n)]
                res.append(list(hc.HillClimbAllocator(lrs, 1, 0).allocate()))
                for _ in range(3):
                    random.random()  # somebody else uses the generator between two compilations
    finally:
        hc.HillClimbAllocator.MIN_ITERATIONS_IMPROVE = saved_min
    return [("range %d gets the same address in both runs" % i, L(res[0][i]) == L(res[1][i])) for i in range(n)]


FUNCS = {"debug_db_twice": debug_db_twice, "opcode_order": opcode_order, "hc_twice": hc_twice, "hc_seeded": hc_seeded, "entry_points": entry_points, "payload_sequence": _from("c17", "sequence"), "build_twice": _from("c03", "build_twice"),
         "cache_key": _from("c08", "cache_key"), "scale_cache_key": _from("c08", "scale_cache_key"), "cache": _from("c08", "cache"),
         "lut_identity": _from("c19", "lut_identity"), "footprint_strided": _from("c02", "footprint_strided")}


def instances(tier, seed):
    from harness import c02, c03, c05, c08, c17, c19

    out = []
    for other in ("convert", "convert_bytes"):
        out.append(dict(key="entry_points/main_vs_%s" % other, fn="entry_points", params=dict(other=other)))
    # the whole-run cases of C05's hc_allocate (one search iteration; more ranges or iterations multiply the paths by orders of magnitude)
    cases = [((0, 1), (0, 1)), ((0, 0), (0, 1)), ((0, 1), (1, 1))]
    if tier != "quick":
        cases += [((0, 1), (1, 2), (0, 2)), ((0, 0), (0, 1), (1, 1))]
    for i, tv in enumerate(cases):
        out.append(dict(key="hc_seeded/%d" % i, fn="hc_seeded", params=dict(times=[list(t) for t in tv], aligns=[16, 64, 16][:len(tv)]), weight=1000))
    for i, tv in enumerate(cases):
        out.append(dict(key="hc_twice/%d" % i, fn="hc_twice", params=dict(times=[list(t) for t in tv], aligns=[16, 64, 16][:len(tv)]), weight=500))
    for n in (3, 4, 5):
        out.append(dict(key="opcode_order/%d" % n, fn="opcode_order", params=dict(n=n)))
    out.append(dict(key="debug_db_twice", fn="debug_db_twice", params={}))
    take = {"c17": ("sequence", "payload_sequence"), "c03": ("build_twice", "build_twice"), "c19": ("lut_identity", "lut_identity"), "c02": ("footprint_strided", "footprint_strided")}
    for modname, mod in (("c17", c17), ("c03", c03), ("c19", c19), ("c02", c02)):
        src, dst = take[modname]
        for inst in mod.instances(tier, seed):
            if inst["fn"] == src:
                out.append(dict(key="sequence/%s/%s" % (modname, inst["key"]), fn=dst, params=inst["params"], weight=inst.get("weight", 1)))
    for inst in c08.instances(tier, seed):
        if inst["fn"] in ("cache_key", "scale_cache_key", "cache"):
            out.append(dict(key="sequence/c08/%s" % inst["key"], fn=inst["fn"], params=inst["params"]))
    return out
