"""C03 - no NPU operation consumes undefined memory (partial: the mechanisms that decide *which* memory an op reads).

lut     : the REAL lut.optimize_high_level_cmd_stream on every history of up to 4 LUT-using operations (LUT size 256 B or 2 KiB, values equal
          to an earlier LUT or new, optional intervening non-LUT stripe on the 16-bank configurations that overwrite the LUT area): whenever
          an operation is issued, the SHRAM bytes its lut_index points at hold exactly its table (the DMA was kept, or an equal table is
          still intact there); tables are slot-aligned inside the LUT window.
rolling : rows of a rolling buffer read by a cascade consumer are present and not overwritten - the C10 cascade lemma, registered here too.
wbuf    : weight double buffering: the buffer the generator uses for the last depth slice is the one whose live range
          extract_live_ranges_from_schedule keeps to the end, and every slice's DMA precedes its first stripe.
"""
import ast
import inspect
import itertools

import z3

from symx import core
from symx.core import SInt, SBool, L, B

EXPLANATION = "C03: LUT slot bookkeeping over all short histories, rolling-buffer row lifetime (C10 cascade lemma), weight double-buffer parity."
SHIMS = ["lut.np.array_equal -> value-tag comparison of stand-in LUT tensors", "cascade harness: see harness/c10.py"]
ASSUMPTIONS = ["SHRAM LUT window = the last 2 KiB below the reserved banks (arch.shram_lut_address/size); a table of 256 bytes uses one of 8 slots, "
               "a 2 KiB table (int16 interpolation) the whole window", "a non-LUT stripe on a configuration without reserved banks (16-bank U55-32/64) "
               "overwrites the LUT window"]
OUTSIDE = ["per-byte last-writer tracking over emitted command streams of compiled networks", "live-range extraction and buffer sizing wiring over real schedules"]
BOUNDS = {"lut": "histories of <= 4 LUT operations (quick and thorough) x {256 B, 2 KiB} x equal-to-earlier/new x optional clobbering stripe, U55-64 (16 banks) and U55-128",
          "wbuf": "1..7 depth slices, 1 or 2 buffers", "rolling": "see C10 cascade bounds"}


def ENCODED():
    import ethosu.vela.npu_performance  # noqa (import cycle)
    import ethosu.vela.scheduler as sch
    import ethosu.vela.lut as lut
    import ethosu.vela.high_level_command_stream_generator as gen
    import ethosu.vela.live_range as lr
    import ethosu.vela.weight_compressor as wc

    return [sch.Scheduler.propose_weight_buffering, wc.encode_weight_and_scale_tensor, lut.optimize_high_level_cmd_stream, lut.LUTState.put, lut.LUTState.find_best_address, lut.LUTState.get_equivalent, lut.get_lut_index,
            gen.generate_high_level_commands_for_sched_op, lr.extract_live_ranges_from_schedule, lr.LiveRange.mark_usage, lr.merge_elementwise_op_ranges,
            lr._get_ifm_to_fuse, wc.NpuWeightTensor.max_range_bytes]


class _Obj:
    def __init__(self, **kw):
        self.__dict__.update(kw)


def lut(V, accel, n):
    import ethosu.vela.lut as lutm
    from ethosu.vela.high_level_command_stream import DMA, NpuStripe
    from ethosu.vela.tensor import TensorPurpose
    from harness.c04 import arch_for

    arch = arch_for(accel)
    cmds = []
    ops = []  # (kind, tensor/None, activation)
    for i in range(n):
        big = V.bool("big%d" % i)
        same_as = V.choice("values%d" % i, ["new"] + list(range(i)))  # equal to an earlier table or new
        clobber = V.bool("clobber_before%d" % i)
        size = 2048 if bool(big) else 256
        if same_as != "new" and ops[same_as]["size"] != size:
            raise core.PathAbort("equal tables have equal sizes")
        tag = ops[same_as]["tag"] if same_as != "new" else i
        t = _Obj(purpose=TensorPurpose.LUT, values=("table", tag), address=None, equivalence_id="eq%d" % i, name="lut%d" % i, _size=size)
        t.storage_size = lambda t=t: t._size
        act = _Obj(lut_index=None)
        from ethosu.vela.operation import NpuBlockType

        ps = _Obj(lut_tensor=t, primary_op=_Obj(activation=act), ofm_shapes=[[1, 1, 1, 1]], name="ps%d" % i, npu_block_type=NpuBlockType.ElementWise)
        if bool(clobber):
            # the operation in between has no table of its own; on the 16-bank parts ANY kind of operation uses the table's banks as working buffers
            # (the kind is a symbolic choice in the histories of up to two LUT operations; longer histories keep one kind - three more forks per
            # clobbering stripe made the four-operation histories 30 times slower)
            kind = V.choice("clobber_kind%d" % i, [NpuBlockType.ConvolutionMxN, NpuBlockType.ElementWise, NpuBlockType.Pooling]) if n <= 2 else NpuBlockType.ConvolutionMxN
            ps0 = _Obj(lut_tensor=None, primary_op=_Obj(activation=None), ofm_shapes=[[1, 1, 1, 1]], name="plain%d" % i, npu_block_type=kind)
            cmds.append(("plain", _mk_stripe(ps0)))
        d = DMA(ps, _Obj(name="src%d" % i), t, None)
        cmds.append(("dma", d))
        cmds.append(("use", _mk_stripe(ps)))
        ops.append(dict(size=size, tag=tag, t=t, act=act, dma=d))
    sg = _Obj(high_level_command_stream=[c for _, c in cmds])
    saved = lutm.np

    class _NP:
        @staticmethod
        def array_equal(a, b):
            return a == b

        def __getattr__(self, nme):
            return getattr(saved, nme)

    lutm.np = _NP()
    try:
        lutm.optimize_high_level_cmd_stream(sg, arch)
    except AssertionError as e:
        return [("optimize_high_level_cmd_stream raised AssertionError %s" % e, False)]
    finally:
        lutm.np = saved
    kept = set(id(c) for c in sg.high_level_command_stream)
    # ---- replay on a byte-owner model of the LUT window
    lut_start, lut_end = arch.shram_lut_address, arch.shram_lut_address + arch.shram_lut_size
    owner = {}  # 256-byte slot index -> table tag
    clobbers = arch.shram_reserved_unused_banks == 0
    cl = []
    for kind, c in cmds:
        if kind == "plain":
            if clobbers:
                owner = {}
            cl.append(("non-LUT command kept", id(c) in kept))
        elif kind == "dma":
            if id(c) in kept:
                t = c.out_tensor
                a = t.address
                cl.append(("table placed inside the LUT window, aligned to its size", a is not None and lut_start <= a and a + t._size <= lut_end and (a - lut_start) % t._size == 0))
                if a is not None:
                    for s in range((a - lut_start) // 256, (a - lut_start + t._size) // 256):
                        owner[s] = t.values
        else:
            ps = c.ps
            t, act = ps.lut_tensor, ps.primary_op.activation
            idx = act.lut_index
            ok = idx is not None and 0 <= idx < 8 and all(owner.get(idx + k) == t.values for k in range(t._size // 256))
            cl.append(("operation %s reads its own table through lut_index %s" % (ps.name, idx), bool(ok)))
            cl.append(("stripe command kept", id(c) in kept))
    return cl


def _mk_stripe(ps):
    from ethosu.vela.high_level_command_stream import NpuStripe, Box

    b = Box([0, 0, 0, 0], [1, 1, 1, 1])
    return NpuStripe(ps, [1, 1, 1, 1], True, True, None, b, None, b)


def wbuf(V, nslices, nbuf):
    """generator: slice k uses buffer k % nbuf and its DMA comes before its stripe; live range: the buffer kept alive to the end is
    `last_idx` as computed in extract_live_ranges_from_schedule (expression taken from its AST)"""
    import ethosu.vela.high_level_command_stream_generator as gen
    import ethosu.vela.live_range as lrm
    from ethosu.vela.high_level_command_stream import DMA, NpuStripe
    from ethosu.vela.operation import Kernel, NpuBlockType, Op
    from ethosu.vela.shape4d import Shape4D
    from ethosu.vela.tensor import MemArea
    from ethosu.vela.ethos_u55_regs.ethos_u55_regs import resampling_mode

    depth = 16 * nslices
    slices = [16 * i for i in range(nslices + 1)]
    bufs = [_Obj(name="buf%d" % i, src_tensor=_Obj(mem_area=MemArea.Dram, name="src"), mem_area=MemArea.Sram) for i in range(nbuf)]
    ifm = _Obj(shape=Shape4D(1, 4, 4, 16), connection=None)
    ofm = _Obj(shape=Shape4D(1, 4, 4, depth))
    tens = {n: _Obj(name=n, purpose=None) for n in ("ifm", "ofm")}
    parent_op = _Obj(attrs={"skirt": [0, 0, 0, 0], "explicit_padding": [0, 0, 0, 0]}, read_offsets=[None, None], read_shapes=[None, None], write_offset=None,
                     write_shape=None, activation_lut=None, type=Op.Conv2DBias, inputs=[], activation=None,
                     get_ifm_ifm2_weights_biases_ofm=lambda: (tens["ifm"], None, _Obj(shape=[1, 1, 16, depth]), None, tens["ofm"]))
    ps = _Obj(npu_block_type=NpuBlockType.ConvolutionMxN, ofm_tensor=tens["ofm"], ops=[], primary_op=parent_op, name="ps", ofm_shapes=[ofm.shape])
    so = _Obj(parent_ps=ps, parent_op=parent_op, ifm=ifm, ifm2=None, ofm=ofm, kernel=Kernel(1, 1), op_type=Op.Conv2DBias, resampling_mode=resampling_mode.NONE,
              reversed_operands=False, index=0, name="op")
    info = _Obj(cascade=0, block_config=_Obj(old_style_representation=lambda: [1, 1, 1, 16]), ofm_depth_slices=slices, stripe=Shape4D(1, 4, 4, depth),
                npu_weights_tensor=_Obj(name="w"), npu_scales_tensor=None, buffered_weight_tensors=bufs)
    schedule = _Obj(cost_map={so: info}, cascades={})
    cmds = list(gen.generate_high_level_commands_for_sched_op(so, schedule))
    cl = []
    used = []
    last_dma = {}
    for pos, c in enumerate(cmds):
        if isinstance(c, DMA):
            last_dma[c.out_tensor.name] = (pos, c.box.start_coord[-1])
        elif isinstance(c, NpuStripe):
            d0 = c.weight_box.start_coord[-1]
            k = slices.index(d0)
            used.append(c.weight_tensor.name)
            cl.append(("slice %d uses buffer %d" % (k, k % nbuf), c.weight_tensor is bufs[k % nbuf]))
            cl.append(("slice %d: its weights were DMA'd into that buffer before the stripe" % k,
                       c.weight_tensor.name in last_dma and last_dma[c.weight_tensor.name][1] == d0 and last_dma[c.weight_tensor.name][0] < pos))
    cl.append(("one stripe per depth slice", len(used) == nslices))
    # live-range side: expression for last_idx from the source of extract_live_ranges_from_schedule
    tree = ast.parse(inspect.getsource(lrm.extract_live_ranges_from_schedule))
    expr = None
    for node in ast.walk(tree):
        if isinstance(node, ast.Assign) and len(node.targets) == 1 and getattr(node.targets[0], "id", None) == "last_idx":
            expr = node.value
    if expr is None:
        cl.append(("last_idx expression found in extract_live_ranges_from_schedule", False))
        return cl
    last_idx = eval(compile(ast.Expression(expr), "<last_idx>", "eval"), {"len": len}, {"op_info": info})
    if nbuf > 1:
        cl.append(("the buffer whose live range is kept to the end is the one the last slice uses", bufs[last_idx].name == used[-1]))
    return cl


def wbuf_live(V, nslices, nbuf):
    """every SRAM weight buffer of an operation is alive while the operation runs: the REAL extract_live_ranges_from_schedule (and through it the
    real LiveRange.mark_usage) on two consecutive stand-in operations, each with `nbuf` buffered weight tensors and `nslices` depth slices; which
    buffers were pre-buffered (their DMA issued during the previous operation) is symbolic.  With the allocators' reading of a live range
    (alive at every step start..end, both included): each buffer's range is marked and contains the operation's time step t; a pre-buffered one
    already at t-1; the one holding the last slice still at t+1 (where the operation's feature maps end); and nothing is alive before step 0.
    An unmarked range has no neighbours for any allocator, so its bytes are handed to a tensor that is live at the same time."""
    import ethosu.vela.live_range as lrm
    from ethosu.vela.operation import Op
    from ethosu.vela.tensor import Tensor, MemArea, MemType, TensorPurpose
    from ethosu.vela.data_type import DataType

    def wb(name):
        t = Tensor([1, 1, 1, 256], DataType.uint8, name)
        t.purpose, t.mem_area, t.mem_type = TensorPurpose.Weights, MemArea.Sram, MemType.Scratch_fast
        t.pre_buffer = bool(V.bool(name + "_pre_buffered"))
        return t

    fms = [_tensor("fm%d" % i, [1, 8, 8, 16], DataType.int8) for i in range(3)]
    ops, cost, bufs = [], {}, {}
    for i in range(2):
        so = _Obj(op_type=Op.Conv2DBias, name="op%d" % i, index=i, parent_op=_Obj(ofm=fms[i + 1], memory_function=None),
                  parent_ps=_Obj(inputs=[fms[i]], outputs=[fms[i + 1]], intermediates=[], ifm_tensor=fms[i]))
        bufs[so] = [wb("op%d_buffer%d" % (i, k)) for k in range(nbuf)]
        cost[so] = _Obj(cascade=0, buffered_weight_tensors=bufs[so], ofm_depth_slices=[16 * k for k in range(nslices + 1)], time_index=None)
        ops.append(so)
    sg = _Obj(sched_ops=ops, schedule=_Obj(cost_map=cost, cascades={}), output_tensors=[fms[2]])
    with core.shims((lrm, {"max": core.smax, "min": core.smin})):
        g = lrm.extract_live_ranges_from_schedule(sg, MemArea.Sram, {MemType.Scratch_fast}, lrm.LiveRangeGraph())
    cl = []
    for so in ops:
        t = cost[so].time_index
        cl.append(("%s: time step recorded" % so.name, t is not None))
        if t is None:
            continue
        fm = g.ranges.get(so.parent_op.ofm)
        cl.append(("%s: its output is alive at its time step" % so.name, z3.And(L(fm.start_time) <= L(t), L(fm.end_time) >= L(t)) if fm is not None else False))
        for k, b in enumerate(bufs[so]):
            r = g.ranges.get(b)
            cl.append(("%s has a live range" % b.name, r is not None))
            if r is None:
                continue
            cl.append(("%s is alive at step %s of its operation" % (b.name, t), z3.And(L(r.start_time) <= L(t), L(r.end_time) >= L(t))))
            cl.append(("%s is not alive before step 0" % b.name, L(r.start_time) >= 0))
            if b.pre_buffer and int(t) >= 1:
                cl.append(("%s (pre-buffered) is already alive one step earlier" % b.name, L(r.start_time) <= L(t) - 1))
            if k == (nslices - 1) % nbuf:
                cl.append(("%s holds the last depth slice and stays alive to the end of the operation (step t+1)" % b.name, L(r.end_time) >= L(t) + 1))
    return cl


def lr_rolling(V, cin, mid_dtype, out_dtype):
    """two sites must agree on the bytes of a cascade's rolling buffer: cascade_builder.BufferMap.get_buffer (what the scheduler
    budgets and what the buffer's addresses wrap at) and extract_live_ranges_from_schedule (what the allocator reserves).  Real code
    on both sides, stand-in scheduler objects, real Tensor/LiveRangeGraph; producer stripe height and feature-map height symbolic.
    Oracle: buffer elements x element size of the data stored in it (the producer's OFM = the consumer's IFM tensor)."""
    import ethosu.vela.cascade_builder as cb
    import ethosu.vela.live_range as lrm
    import ethosu.vela.tensor as tm
    import ethosu.vela.numeric_util as nu
    from ethosu.vela.tensor import Tensor, MemArea, MemType, TensorPurpose
    from ethosu.vela.data_type import DataType
    from ethosu.vela.shape4d import Shape4D

    W, C = 8, 16
    P = V.int("producer_stripe_height", 1, 64)
    H = V.int("height", 1, 4096)
    dts = {"int8": DataType.int8, "int16": DataType.int16}
    mk = lambda name, dt: _tensor(name, [1, 64, W, C], dt)  # noqa
    t_in, t_mid, t_out = mk("in", DataType.int8), mk("mid", dts[mid_dtype]), mk("out", dts[out_dtype])
    prod = _Obj(ofm=_Obj(shape=Shape4D(1, H, W, C), dtype=dts[mid_dtype]), ifm=_Obj(shape=Shape4D(1, H, W, C), dtype=DataType.int8), requires_full_ofm=False,
                requires_full_ifm=False, index=0, name="producer")
    cons = _Obj(ofm=_Obj(shape=Shape4D(1, H, W, C), dtype=dts[out_dtype]), ifm=_Obj(shape=Shape4D(1, H, W, C), dtype=dts[mid_dtype]), requires_full_ofm=False,
                requires_full_ifm=False, index=1, name="consumer")
    cost = {prod: _Obj(stripe=Shape4D(1, P, W, C), cascade=1, buffered_weight_tensors=[], ofm_depth_slices=[0, C]),
            cons: _Obj(stripe=Shape4D(1, 1, W, C), stripe_input=Shape4D(1, cin, W, C), cascade=1, buffered_weight_tensors=[], ofm_depth_slices=[0, C])}
    with core.shims((cb, {"max": core.smax, "min": core.smin}), (lrm, {"max": core.smax, "min": core.smin}), (tm, {"int": core.IntShim}), (nu, {"int": core.IntShim})):
        shape, size = cb.BufferMap().get_buffer(prod, cons, cost)
        prod.parent_ps = _Obj(inputs=[t_in], outputs=[t_mid], intermediates=[], ifm_tensor=t_in)
        cons.parent_ps = _Obj(inputs=[t_mid], outputs=[t_out], intermediates=[], ifm_tensor=t_mid)
        prod.parent_op = _Obj(ofm=t_mid)
        cons.parent_op = _Obj(ofm=t_out)
        sg = _Obj(sched_ops=[prod, cons], schedule=_Obj(cost_map=cost, cascades={1: _Obj(start=0, end=1, buffers={cons: shape}, mem_usage=0)}), output_tensors=[])
        g = lrm.extract_live_ranges_from_schedule(sg, MemArea.Sram, {MemType.Scratch_fast}, lrm.LiveRangeGraph())
    rng = g.ranges[t_mid]
    esz = 2 if mid_dtype == "int16" else 1
    want = L(shape.height) * W * ((C + 15) // 16 * 16) * esz
    return [("scheduler's rolling-buffer size == elements x element size of the stored data", L(size) == want),
            ("live range reserved for the rolling buffer == the scheduler's buffer size", L(rng.size) == L(size)),
            ("buffer is at least producer stripe + consumer input rows", L(shape.height) >= L(P) + cin)]


def build_twice(V, cin, spilling):
    """CascadeBuilder.build_cascades called twice on the same builder with two different stripe proposals (what
    Scheduler.optimize_sub_schedule does): the rolling buffer recorded for the cascade of each call must be the one for THAT call's
    producer stripe - a buffer computed for another proposal is too small (rows overwritten) or too large."""
    import ethosu.vela.cascade_builder as cb
    import ethosu.vela.numeric_util as nu
    from ethosu.vela.operation import Op, NpuBlockType
    from ethosu.vela.data_type import DataType
    from ethosu.vela.shape4d import Shape4D

    W, C, CM, H = 8, 16, 64, 64  # the intermediate feature map is 4x deeper than input/output, so cascading saves SRAM

    def mkop(idx, ic, oc):
        return _Obj(op_type=_Obj(npu_block_type=NpuBlockType.ConvolutionMxN, is_elementwise_op=lambda: False), index=idx, name="op%d" % idx,
                    ofm=_Obj(shape=Shape4D(1, H, W, oc), dtype=DataType.int8), ifm=_Obj(shape=Shape4D(1, H, W, ic), dtype=DataType.int8),
                    parent_op=_Obj(read_offsets=[None, None], type=Op.Conv2DBias, attrs={}, memory_function=None), requires_full_ifm=False,
                    requires_full_ifm2=False, requires_full_ofm=False, ifm_size_in_bytes=lambda: H * W * ic, ofm_size_in_bytes=lambda: H * W * oc,
                    ifm2_size_in_bytes=lambda: 0)

    prod, cons = mkop(0, C, CM), mkop(1, CM, C)
    prod.get_dependants = lambda: [cons]
    cons.get_dependants = lambda: []
    builder = cb.CascadeBuilder([prod, cons], bool(spilling), None)
    results = []
    with core.shims((cb, {"max": core.smax, "min": core.smin})):
        for call in (1, 2):
            P = V.int("producer_stripe_%d" % call, 1, 32)

            def info(stripe_h, sin, ic, oc):
                return _Obj(stripe=Shape4D(1, stripe_h, W, oc), stripe_input=Shape4D(1, sin, W, ic), buffered_weight_tensors=[], cascade=0)

            ref = _Obj(cost_map={prod: info(P, P, C, CM), cons: info(1, cin, CM, C)}, cascades={})
            fb = _Obj(cost_map={prod: info(H, H, C, CM), cons: info(H, H, CM, C)})
            out = builder.build_cascades(ref, fb, 20000)
            results.append((P, out))
    cl = []
    for call, (P, out) in enumerate(results, 1):
        for end, ci in out.cascades.items():
            if cons in ci.buffers:
                bh = ci.buffers[cons].height
                want = ((L(P) + cin + cin - 1) / cin) * cin
                cl.append(("call %d: rolling buffer recorded for the cascade is the one for this call's producer stripe" % call, L(bh) == want))
    cl.append(("both proposals produced a cascade with a rolling buffer", len(cl) == 2))
    return cl


def memcpy(V, same_area):
    """dma_feature_map_if_necessary: a feature-map copy (Memcpy) may only be elided when source and destination are the same bytes:
    same address AND same memory; otherwise the consumer would read bytes nothing wrote."""
    import ethosu.vela.high_level_command_stream_generator as gen
    from ethosu.vela.high_level_command_stream import DMA, NOP
    from ethosu.vela.tensor import MemArea

    sa = V.int("src_address", 0, 1 << 30)
    da = V.int("dst_address", 0, 1 << 30)
    src = _Obj(name="src", shape=[1, 4, 4, 16], mem_area=MemArea.Dram, address_for_coordinate=lambda c: sa)
    dst = _Obj(name="dst", shape=[1, 4, 4, 16], mem_area=MemArea.Dram if same_area else MemArea.Sram, address_for_coordinate=lambda c: da)
    cmds = list(gen.dma_feature_map_if_necessary(_Obj(name="ps"), src, dst))
    is_dma = len(cmds) == 1 and isinstance(cmds[0], DMA)
    is_nop = len(cmds) == 1 and isinstance(cmds[0], NOP)
    same_bytes = z3.And(L(sa) == L(da), z3.BoolVal(bool(same_area)))
    return [("exactly one command", len(cmds) == 1), ("the copy is elided only when source and destination are the same bytes in the same memory",
                                                   z3.BoolVal(is_nop) == same_bytes), ("otherwise a DMA is emitted", z3.BoolVal(is_dma) == z3.Not(same_bytes))]


def _tensor(name, shape, dt):
    from ethosu.vela.tensor import Tensor, MemArea, MemType, TensorPurpose

    t = Tensor(shape, dt, name)
    t.purpose = TensorPurpose.FeatureMap
    t.mem_area, t.mem_type = MemArea.Sram, MemType.Scratch_fast
    return t


def rolling(V, **params):
    from harness import c10

    return c10.cascade(V, **params)


def wbuf_sizes(V, **params):
    """the SRAM weight buffers are allocated from NpuWeightTensor.double_buffer_sizes: each must hold every (all cores') slice DMA-ed into it -
    the encoder bookkeeping lemma of harness/c08.py, registered here because an under-sized buffer lets the weight DMA overwrite a live tensor"""
    from harness import c08

    return c08.encode(V, **params)


def buffering(V, **params):
    """every weight depth slice fits the SRAM buffer the command generator DMAs it into (harness/c08.py buffering: the real
    Scheduler.propose_weight_buffering over symbolic slice sizes) - an overrun writes outside the buffer's extent, over a neighbouring tensor"""
    from harness import c08

    return c08.buffering(V, **params)


def format_rules(V, **params):
    """a DMA copy (Memcpy) moves the linear bytes of its source: neither its input nor its output may use the brick format, or the consumer
    addresses bytes nothing defined (harness/c02.py format_rules: the real check_format_restrictions with symbolic producers/consumers)"""
    from harness import c02

    return c02.format_rules(V, **params)


def ifm_fuse(V, kind):
    """an elementwise (or copy) operation's output may take over the bytes of one of its inputs only when nobody else reads that input: the REAL
    live_range._get_ifm_to_fuse on a stand-in operation whose inputs' consumer lists (1..3 entries: this operation, another operation, None = the
    tensor is also an output of the subgraph, read later by somebody outside), write protection, shapes, formats, data types and the number of
    producers of the output are symbolic and decided lazily (a fork only where the code looks).  Oracle: a tensor is returned only if its
    consumer list is exactly [this operation], it is not write protected and agrees with the output in shape, format and type."""
    import ethosu.vela.live_range as lr
    from ethosu.vela.operation import Op
    from ethosu.vela.tensor import TensorPurpose, MemArea, MemType

    class O:
        def __init__(self, **kw):
            self.__dict__.update(kw)

    this = O(name="this")
    other = O(name="other")
    facts = {}

    def flag(name):
        if name not in facts:
            facts[name] = V.bool(name)
        return facts[name]

    class Attr:
        """an attribute value (format, data type, operator shape) of which only equality with the output's matters"""

        def __init__(self, tag):
            self.tag = tag

        def __eq__(self, o):
            if self.tag == "ofm" or o.tag == "ofm":
                t = o.tag if self.tag == "ofm" else self.tag
                return flag(t + "_equals_ofm") if t != "ofm" else True
            raise core.Unmodelled("comparison between two inputs")

        def __ne__(self, o):
            r = self.__eq__(o)
            return (not r) if isinstance(r, bool) else ~r

        __hash__ = None

    class Consumers(list):
        """consumer list materialised on first use"""

        def __init__(self, tag):
            list.__init__(self)
            self.tag, self.done = tag, False

        def _mat(self):
            if not self.done:
                self.done = True
                n = V.choice(self.tag + "_nconsumers", [1, 2, 3])
                for i in range(n):
                    list.append(self, V.choice("%s_consumer%d" % (self.tag, i), [this, other, None]))
                if not any(c is this for c in list.__iter__(self)):
                    raise core.PathAbort("ill-formed graph: an input's consumer list always contains the operation that reads it")

        def __len__(self):
            self._mat()
            return list.__len__(self)

        def __iter__(self):
            self._mat()
            return list.__iter__(self)

        def __getitem__(self, i):
            self._mat()
            return list.__getitem__(self, i)

    class T:
        def __init__(self, tag):
            self.name = tag
            self.purpose = TensorPurpose.FeatureMap
            self.shape = [1, 8, 8, 16]
            self.format, self.dtype = Attr(tag + "_format"), Attr(tag + "_dtype")
            self.consumer_list = Consumers(tag)

        @property
        def ifm_write_protected(self):
            return flag(self.name + "_write_protected")

        @property
        def mem_area(self):  # the arena being allocated is (Sram, {Scratch}); with spilling a tensor may live in the other one
            return MemArea.Sram if flag(self.name + "_in_target_area") else MemArea.Dram

        @property
        def mem_type(self):
            return MemType.Scratch if flag(self.name + "_has_target_mem_type") else MemType.Scratch_fast

    ofm = T("ofm")
    ofm.format, ofm.dtype = Attr("ofm"), Attr("ofm")

    class Producers(list):
        def __len__(self):
            return 2 if flag("ofm_second_producer") else 1

    ofm.ops = Producers([this])
    ifm = T("ifm")
    ifm2 = T("ifm2") if kind == "binary" else None
    this.__dict__.update(ifm=ifm, ifm2=ifm2, ofm=ofm, ifm_shapes=[Attr("ifm_op_shape"), Attr("ifm2_op_shape")], ofm_shapes=[Attr("ofm")], memory_function=None)
    sop = O(parent_op=this, op_type={"memcpy": Op.Memcpy, "binary": Op.Add, "unary": Op.Abs}[kind])
    fused = []
    graph = O(fuse_ranges=lambda a, b: fused.append((a, b)))
    lr.merge_elementwise_op_ranges(None, sop, graph, MemArea.Sram, {MemType.Scratch})  # as extract_live_ranges_from_schedule calls it for one arena
    direct = lr._get_ifm_to_fuse(sop, MemArea.Sram, {MemType.Scratch})
    if not fused:
        return None if direct is None else [("a fusable input reported by _get_ifm_to_fuse is fused by merge_elementwise_op_ranges", False)]
    got = fused[0][0]
    cons = [c for c in got.consumer_list]
    t = got.name
    in_arena = lambda n: z3.And(B(flag(n + "_in_target_area")), B(flag(n + "_has_target_mem_type")))  # noqa: E731
    cl = [("exactly one pair is fused: an input with the operation's output", len(fused) == 1 and fused[0][1] is ofm),
          ("the fused tensor is an input of the operation", got is ifm or got is ifm2),
          ("input and output both live in the arena being allocated (fusing across arenas gives one tensor two addresses)", z3.And(in_arena(t), in_arena("ofm"))),
          ("the fused input has exactly one reader, this operation (a None entry is a reader outside the subgraph)", len(cons) == 1 and cons[0] is this)]
    if kind != "memcpy":
        cl += [("the fused input is not write protected", z3.Not(B(flag(t + "_write_protected")))),
               ("same format as the output", B(flag(t + "_format_equals_ofm"))), ("same data type as the output", B(flag(t + "_dtype_equals_ofm"))),
               ("same operator shape as the output", B(flag(t + "_op_shape_equals_ofm"))),
               ("the output has a single producer", z3.Not(B(flag("ofm_second_producer"))))]
    return cl


def weight_ranges(V, **params):
    """the scale records an operation reads come from the region of the tensor that holds them - a stand-alone scale tensor (weights served from
    the cache) stays in the constants region even when the weights are buffered in SRAM (harness/c08.py weight_ranges); read through the weight
    buffer's region they are bytes nothing defined"""
    from harness import c08

    return c08.weight_ranges(V, **params)


def rolling_dims(V, **params):
    """the allocation of a rolling buffer (sized from rolling_buffer_shape) covers what the producer writes and the consumer reads: width,
    16-channel bricks, rows (harness/c02.py rolling_dims); a smaller shape lets a neighbouring tensor overwrite rows still to be read"""
    from harness import c02

    return c02.rolling_dims(V, **params)


def lut_dma(V, C, nslices):
    """the lookup table of an operation is (re)loaded before EVERY stripe of it: the REAL generate_high_level_commands_for_sched_op on an operation
    with a LUT activation, symbolic OFM height, stripe height C and 1..2 depth slices.  lut.optimize_high_level_cmd_stream (lemma `lut`) only ever
    REMOVES table DMAs it can prove redundant; when other stripes have overwritten the table's SHRAM slot in between (16-bank parts, cascades, slot
    pressure) it relies on the generator having emitted a fresh DMA in front of the next stripe.  Claim: between the stripes of one row group and
    the first stripe of the next there is a DMA of the table, and the first stripe is preceded by one."""
    import ethosu.vela.high_level_command_stream_generator as gen
    from ethosu.vela.high_level_command_stream import DMA, NpuStripe
    from ethosu.vela.operation import Kernel, NpuBlockType, Op
    from ethosu.vela.shape4d import Shape4D
    from ethosu.vela.tensor import TensorPurpose, MemArea
    from ethosu.vela.ethos_u55_regs.ethos_u55_regs import resampling_mode
    from harness.c10 import _shims, _srange, _Obj

    W, D = 8, 16 * nslices
    H = V.int("H", 1, 12)
    V.assume(L(H) <= 4 * C)
    with core.shims(*(_shims() + ((gen, {"range": _srange(6), "min": core.smin, "max": core.smax}),))):
        ifm = _Obj(shape=Shape4D(1, H, W, D), connection=None)
        ofm = _Obj(shape=Shape4D(1, H, W, D))
        t_in, t_out = _Obj(name="in", purpose=None), _Obj(name="out", purpose=None)
        table = _Obj(name="table", purpose=TensorPurpose.LUT, shape=[1, 1, 1, 256], mem_area=MemArea.Shram, src_tensor=_Obj(name="table_src", mem_area=MemArea.Dram))
        parent_op = _Obj(attrs={"skirt": [0, 0, 0, 0], "explicit_padding": [0, 0, 0, 0], "ksize": [1, 1, 1, 1]}, read_offsets=[None, None], read_shapes=[None, None],
                         write_offset=None, write_shape=None, activation_lut=table, type=Op.AvgPool, inputs=[t_in, table], activation=None,
                         get_ifm_ifm2_weights_biases_ofm=lambda: (t_in, None, None, None, t_out))
        ps = _Obj(npu_block_type=NpuBlockType.Pooling, ofm_tensor=t_out, ops=[], primary_op=parent_op, name="op", ofm_shapes=[ofm.shape])
        sop = _Obj(parent_ps=ps, parent_op=parent_op, ifm=ifm, ifm2=None, ofm=ofm, kernel=Kernel(1, 1), op_type=Op.AvgPool,
                   resampling_mode=resampling_mode.NONE, reversed_operands=False, index=0, name="op")
        info = _Obj(cascade=0, block_config=_Obj(old_style_representation=lambda: [1, 1, 1, 16]), ofm_depth_slices=[16 * i for i in range(nslices + 1)],
                    stripe=Shape4D(1, C, W, D), npu_weights_tensor=None, npu_scales_tensor=None, buffered_weight_tensors=[])
        cmds = list(gen.generate_high_level_commands_for_sched_op(sop, _Obj(cost_map={sop: info}, cascades={})))
    claims = []
    loaded = False   # a table DMA seen since the last stripe of the previous row group
    cur_row = None
    n = 0
    for cmd in cmds:
        if isinstance(cmd, DMA) and cmd.out_tensor is table:
            loaded = True
        elif isinstance(cmd, NpuStripe):
            row = cmd.ofm_box.start_coord[1]
            new_group = cur_row is None or not (z3.is_true(z3.simplify(L(row) == L(cur_row))))
            if new_group:
                claims.append(("row group %d: the table is loaded in front of its first stripe" % n, loaded))
                n += 1
                cur_row = row
            loaded = False
    claims.append(("at least one stripe generated", n >= 1))
    return claims


FUNCS = {"wbuf_live": wbuf_live, "weight_ranges": weight_ranges, "lut_dma": lut_dma, "rolling_dims": rolling_dims, "ifm_fuse": ifm_fuse, "format_rules": format_rules, "buffering": buffering, "lut": lut, "wbuf": wbuf, "rolling": rolling, "lr_rolling": lr_rolling, "build_twice": build_twice, "memcpy": memcpy, "wbuf_sizes": wbuf_sizes}


def instances(tier, seed):
    out = []
    for accel in ("Ethos_U55_64", "Ethos_U55_128"):
        for n in (1, 2, 3, 4):
            out.append(dict(key="lut/%s/n%d" % (accel, n), fn="lut", params=dict(accel=accel, n=n), weight=10 ** n))
    out.append(dict(key="rolling_dims", fn="rolling_dims", params={}))
    for C in (1, 2, 3):
        for nsl in (1, 2):
            out.append(dict(key="lut_dma/c%d/slices%d" % (C, nsl), fn="lut_dma", params=dict(C=C, nslices=nsl)))
    for kind in ("unary", "binary", "memcpy"):
        out.append(dict(key="ifm_fuse/%s" % kind, fn="ifm_fuse", params=dict(kind=kind), weight=20))
    for nslices in range(1, 8):
        for nbuf in (1, 2):
            out.append(dict(key="wbuf/s%d_b%d" % (nslices, nbuf), fn="wbuf", params=dict(nslices=nslices, nbuf=nbuf)))
            out.append(dict(key="wbuf_live/s%d_b%d" % (nslices, nbuf), fn="wbuf_live", params=dict(nslices=nslices, nbuf=nbuf)))
    for cin in (1, 2, 3, 5, 8):
        for md, od in (("int8", "int8"), ("int16", "int8"), ("int8", "int16"), ("int16", "int16")):
            out.append(dict(key="lr_rolling/cin%d/%s_%s" % (cin, md, od), fn="lr_rolling", params=dict(cin=cin, mid_dtype=md, out_dtype=od)))
    for same in (0, 1):
        out.append(dict(key="memcpy/%s" % ("same_area" if same else "other_area"), fn="memcpy", params=dict(same_area=same)))
    for cin in (1, 3, 4):
        for sp in (0, 1):
            out.append(dict(key="build_twice/cin%d/spill%d" % (cin, sp), fn="build_twice", params=dict(cin=cin, spilling=sp), weight=5))
    from harness import c10

    from harness import c08
    from harness import c02

    for inst in c02.instances(tier, seed):
        if inst["fn"] == "format_rules":
            out.append(dict(key=inst["key"], fn="format_rules", params=inst["params"], weight=inst.get("weight", 1)))
    for inst in c08.instances(tier, seed):
        if inst["fn"] == "weight_ranges":
            out.append(dict(key=inst["key"], fn="weight_ranges", params=inst["params"]))
        if inst["fn"] == "encode":
            out.append(dict(key="wbuf_sizes/" + inst["key"], fn="wbuf_sizes", params=inst["params"], weight=inst.get("weight", 1)))
        if inst["fn"] == "buffering":
            out.append(dict(key=inst["key"], fn="buffering", params=inst["params"]))
    for inst in c10.instances(tier, seed):
        if inst["fn"] == "cascade":
            out.append(dict(key="rolling/" + inst["key"], fn="rolling", params=inst["params"], weight=inst.get("weight", 1)))
    return out
