"""a model with an int4 constant (TFLite >= 2.13 stores int4 weights packed) goes through vela.main"""
import sys, os, tempfile, io, contextlib
import numpy as np
from ethosu.vela.data_type import DataType
from ethosu.vela.nn_graph import Graph, Pass, PassPlacement, Subgraph
from ethosu.vela.operation import NpuBlockType, Op, Operation
from ethosu.vela.tensor import create_const_tensor, QuantizationParameters, Tensor
from ethosu.vela.tflite_writer import write_tflite
from ethosu.vela import vela

def quant(s):
    qp = QuantizationParameters(); qp.scale_f32 = np.float32(s); qp.zero_point = 0
    return qp
x = Tensor([1, 8], DataType.int8, "x"); x.quantization = quant(0.5)
xop = Operation(Op.Placeholder, "x"); xop.set_output_tensor(x)
w = create_const_tensor("w", [4, 8], DataType.int4, np.zeros(16, dtype=np.int8), quantization=quant(0.25))   # 32 int4 values = 16 bytes
w.values = np.zeros(16, dtype=np.int8)
y = Tensor([1, 4], DataType.int8, "y"); y.quantization = quant(1.0)
op = Operation(Op.FullyConnected, "fc"); op.op_index = 0; op.run_on_npu = False
op.add_input_tensor(x); op.add_input_tensor(w); op.set_output_tensor(y)
op.attrs = {"fused_activation_function": None, "weights_format": 0, "keep_num_dims": False, "asymmetric_quantize_inputs": False}
sg = Subgraph("main", PassPlacement.Cpu); sg.input_tensors = [x]; sg.original_inputs = [x]; sg.output_tensors = [y]
p0 = Pass("startup", PassPlacement.StartupInit, False, NpuBlockType.Default); p0.ops = [xop, w.ops[0]]
p1 = Pass("fc", PassPlacement.Cpu, False, NpuBlockType.Default); p1.ops = [op]
sg.passes = [p0, p1]
nng = Graph("demo"); nng.subgraphs.append(sg)
tmp = tempfile.mkdtemp(); f = os.path.join(tmp, "int4.tflite")
write_tflite(nng, f)
print("written", os.path.getsize(f))
os.chdir(tmp)
rc = vela.main([f, "--output-dir", tmp])
print("vela rc", rc)
