"""check runner: ./check <PROPERTY> [--tier quick|thorough] [--replay FILE] [--only SUBSTR] [--jobs N]

exit 0  property held on everything explored (KNOWN-FINDING lines allowed)
exit 1  VIOLATION property=<id> replay=<path>   (counterexample reproduced on the unpatched code)
exit 2  inconclusive (solver unknown, budget, unmodelled construct, vacuous harness) - never reported as success
exit 3  harness/engine error (counterexample did not reproduce, non-deterministic re-execution, crash)
"""
import argparse
import hashlib
import importlib
import inspect
import json
import multiprocessing
import os
import subprocess
import sys
import time
import traceback

ROOT = os.path.dirname(os.path.dirname(os.path.abspath(__file__)))
sys.path.insert(0, ROOT)
# the code under test is /repo's working tree (editable install of the base venv); VERIF_REPO points the check at another checkout of the same
# repository instead (used by tools/try_patch.sh to try a seeded change in a scratch worktree without touching /repo)
REPO = os.environ.get("VERIF_REPO", "/repo")
if REPO != "/repo":
    sys.path.insert(0, REPO)

from symx import core  # noqa: E402

KNOWN_FILE = os.path.join(ROOT, "known_findings.json")
MAX_REPLAYS_PER_FN = 3  # further counterexamples of the same harness function are counted, not replayed one by one
MAX_REPLAY_ATTEMPTS_PER_FN = 12  # ... but a counterexample that does not reproduce does not use up that allowance: the next ones are still tried


def load_known(prop):
    try:
        data = json.load(open(KNOWN_FILE))
    except FileNotFoundError:
        return []
    return [f for f in data.get("findings", []) if f.get("property") == prop and f.get("status") == "known"]


def harness_module(prop):
    return importlib.import_module("harness.%s" % prop.lower())


class Mode:
    """how V.finding() behaves: main run excludes listed known regions; confirm run restricts to one region"""

    def __init__(self, known_ids=(), confirm=None):
        self.known_ids = set(known_ids)
        self.confirm = confirm


def _install_finding(V, mode):
    def finding(fid, region):
        region = core.B(region)
        if mode.confirm is not None:
            if fid == mode.confirm:
                V.assume(region)
        elif fid in mode.known_ids:
            import z3

            V.assume(z3.Not(region))

    def except_finding(fid, region, claim):
        """claim adjusted for a recorded finding `fid` whose failing inputs lie inside `region`:
        main run, finding listed as known  -> the claim is only required outside the region (other claims stay checked inside);
        confirm run for fid                -> only violations inside the region count (and only [fid]-tagged claims are checked);
        finding not listed                 -> the claim unchanged (a violation is reported as VIOLATION)."""
        import z3

        region, claim = core.B(region), core.B(claim)
        if mode.confirm is not None:
            return z3.Or(z3.Not(region), claim) if fid == mode.confirm else z3.BoolVal(True)
        if fid in mode.known_ids:
            return z3.Or(region, claim)
        return claim

    V.finding = finding
    V.except_finding = except_finding
    V.mode = mode
    return V


def _body(mod, fn, params, mode):
    f = mod.FUNCS[fn]

    def run(V):
        _install_finding(V, mode)
        from symx import rat

        rat.OBLIGATIONS.clear()  # side conditions of the rational float model are per path: none may survive from a harness that did not consume its own
        post = f(V, **params)
        if mode.confirm is not None and isinstance(post, (list, tuple)):
            tagged = [c for c in post if isinstance(c, tuple) and isinstance(c[0], str) and ("[%s]" % mode.confirm) in c[0]]
            if tagged:
                return tagged
        return post

    return run


class _TaskTimeout(BaseException):
    pass


def _alarm(signum, frame):
    raise _TaskTimeout()


def _child(task):
    import signal

    prop, inst, mode_d, caps = task[:4]
    t0 = time.time()
    hard = int(caps.get("task_wall_cap", 900))
    try:
        signal.signal(signal.SIGALRM, _alarm)
        # repeating: an exception raised inside a z3 (ctypes) callback is swallowed there, so one shot is not enough
        signal.setitimer(signal.ITIMER_REAL, hard, 20)
    except Exception:  # noqa
        pass
    try:
        mod = harness_module(prop)
        if getattr(mod, "RLIMIT", None):
            core.RLIMIT = mod.RLIMIT
        mode = Mode(mode_d.get("known", ()), mode_d.get("confirm"))
        r = core.explore(_body(mod, inst["fn"], inst["params"], mode), max_paths=caps.get("max_paths", 200000),
                         wall_cap=caps.get("wall_cap", max(hard - 60, 60)),  # normally explore() itself stops between two paths
                         crosscheck=int(task[4]) if len(task) > 4 else 0, fresh_final=inst["fn"] in getattr(mod, "FRESH_FINAL", ()))
    except _TaskTimeout:
        core.CTX = None
        r = dict(result="inconclusive", why="task wall-clock safety net (%d s) hit" % hard)
    except core.EngineError as e:
        r = dict(result="error", why="EngineError: %s" % e)
    except BaseException as e:  # noqa
        r = dict(result="error", why="%s: %s\n%s" % (type(e).__name__, e, traceback.format_exc()[-1500:]))
    try:
        signal.setitimer(signal.ITIMER_REAL, 0)
    except Exception:  # noqa
        pass
    if r.get("result") == "error" and "_TaskTimeout" in str(r.get("why")):
        r = dict(result="inconclusive", why="task wall-clock safety net (%d s) hit (inside a solver call)" % hard)
    r["key"] = inst["key"]
    r["fn"] = inst["fn"]
    r["params"] = inst["params"]
    r["mode"] = mode_d
    r["task_wall_s"] = time.time() - t0
    r.pop("decls", None)
    return r


def source_hashes(mod):
    out = []
    for f in getattr(mod, "ENCODED", lambda: [])():
        try:
            src = inspect.getsource(f)
            name = "%s.%s" % (getattr(f, "__module__", "?"), getattr(f, "__qualname__", getattr(f, "__name__", "?")))
            out.append({"function": name, "sha256_16": hashlib.sha256(src.encode()).hexdigest()[:16],
                        "file": os.path.relpath(inspect.getsourcefile(f), REPO)})
        except Exception as e:  # noqa
            out.append({"function": repr(f), "error": str(e)})
    return out


def _worker(conn):
    while True:
        try:
            t = conn.recv()
        except EOFError:
            return
        if t is None:
            return
        conn.send(_child(t))


def _run_pool(tasks, jobs, maxtasks):
    """fork workers fed over pipes, with a parent-side watchdog: a worker that exceeds its task's wall cap by more than 90 s (a solver call that
    does not return, which no Python-level signal handler can interrupt) is killed and its task recorded as inconclusive; a worker that dies is
    recorded as an error.  Results come back in completion order."""
    import multiprocessing.connection as mpc

    ctx = multiprocessing.get_context("fork")
    pending = list(tasks)
    workers, results = [], []

    def spawn():
        pc, cc = ctx.Pipe()
        pr = ctx.Process(target=_worker, args=(cc,), daemon=True)
        pr.start()
        cc.close()
        return dict(proc=pr, conn=pc, task=None, t0=0.0, n=0)

    def lost(w, result, why):
        t = w["task"]
        results.append(dict(result=result, why=why, key=t[1]["key"], fn=t[1]["fn"], params=t[1]["params"], mode=t[2], wall_s=time.time() - w["t0"]))

    def retire(w, kill=False):
        try:
            if kill:
                w["proc"].kill()
            else:
                w["conn"].send(None)
            w["proc"].join(10)
            w["conn"].close()
        except Exception:  # noqa
            pass
        workers.remove(w)

    while pending or any(w["task"] is not None for w in workers):
        while pending and len(workers) < jobs:
            workers.append(spawn())
        for w in workers:
            if w["task"] is None and pending:
                w["task"], w["t0"] = pending.pop(0), time.time()
                w["n"] += 1
                w["conn"].send(w["task"])
        busy = [w for w in workers if w["task"] is not None]
        ready = mpc.wait([w["conn"] for w in busy], timeout=1.0)
        for w in list(busy):
            if w["conn"] in ready:
                try:
                    results.append(w["conn"].recv())
                    w["task"] = None
                    if w["n"] >= maxtasks:
                        retire(w)
                except (EOFError, OSError):
                    lost(w, "error", "worker process died (exit code %s)" % w["proc"].exitcode)
                    retire(w, kill=True)
            else:
                hard = int(w["task"][3].get("task_wall_cap", 900))
                if time.time() - w["t0"] > hard + 90:
                    lost(w, "inconclusive", "worker killed by the watchdog %d s after its %d s wall cap (a solver call did not return)" % (90, hard))
                    retire(w, kill=True)
    for w in list(workers):
        retire(w)
    return results


def replay(prop, path):
    d = json.load(open(path))
    mod = harness_module(prop)
    mode = Mode(d["mode"].get("known", ()), d["mode"].get("confirm"))
    res, failed = core.run_concrete(_body(mod, d["fn"], d["params"], mode), d["values"])
    print("REPLAY property=%s fn=%s key=%s -> %s %s" % (prop, d["fn"], d.get("key"), res, failed))
    if res == "violated":
        print("REPRODUCED: the unpatched code under /repo violates claims %s for values %s" % (failed, json.dumps(d["values"])))
        return 10
    if res == "holds":
        print("NOT-REPRODUCED: concrete run satisfies the claims")
        return 11
    print("NOT-APPLICABLE: %s" % (failed,))
    return 12


def main(argv=None):
    ap = argparse.ArgumentParser()
    ap.add_argument("prop")
    ap.add_argument("--tier", default=os.environ.get("VERIF_TIER", "quick"))
    ap.add_argument("--replay")
    ap.add_argument("--only")
    ap.add_argument("--jobs", type=int, default=int(os.environ.get("VERIF_JOBS", "16")))
    ap.add_argument("--evidence", default=None)
    a = ap.parse_args(argv)
    if os.environ.get("VERIF_TIER"):
        a.tier = os.environ["VERIF_TIER"]
    prop = a.prop.upper()
    if a.replay:
        return replay(prop, a.replay)
    seed = int(os.environ.get("VERIF_SEED", "0"))
    t0 = time.time()
    mod = harness_module(prop)
    insts = mod.instances(a.tier, seed)
    if a.only:
        insts = [i for i in insts if a.only in i["key"]]
    known = load_known(prop)
    known_ids = [k["id"] for k in known]
    # per-task wall cap: 900 s in the quick tier, one hour in the thorough tier (a thorough instance measured at 220 s alone took 840 s under load)
    caps = dict({"task_wall_cap": 900 if a.tier == "quick" else 3600}, **getattr(mod, "CAPS", {}).get(a.tier, {}))
    tasks = [(prop, i, {"known": known_ids, "confirm": None}, caps) for i in insts]
    for k in known:
        for i in insts:
            if k.get("confirm_keys") is not None:
                if i["key"] in k["confirm_keys"]:
                    tasks.append((prop, i, {"known": known_ids, "confirm": k["id"]}, caps))
                continue
            if i["fn"] == k["fn"] and (k.get("key_contains") is None or k["key_contains"] in i["key"]):
                tasks.append((prop, i, {"known": known_ids, "confirm": k["id"]}, caps))
    # second solver: the final queries (first two paths) of a sample of the instances are decided again by cvc5
    step = max(1, len(tasks) // (60 if a.tier == "quick" else 300))
    tasks = [t + ((2 if i % step == 0 else 0),) for i, t in enumerate(tasks)]
    # longest first where the harness gives a weight
    tasks.sort(key=lambda t: -t[1].get("weight", 1))
    # engine self-check (differential validation of the proxy semantics against the installed Python/NumPy) runs alongside on one core
    selfcheck = None
    if not a.only and not os.environ.get("VERIF_NO_SELFCHECK"):
        selfcheck = subprocess.Popen([sys.executable, "-m", "symx.selfcheck"], cwd=ROOT, stdout=subprocess.PIPE, stderr=subprocess.PIPE, text=True)
    results = []
    if a.jobs <= 1 or len(tasks) <= 1:
        for t in tasks:
            results.append(_child(t))
    else:
        results = _run_pool(tasks, min(a.jobs, len(tasks)), getattr(mod, "MAXTASKS", 50))
    # ---- verdicts
    os.makedirs(os.path.join(ROOT, "replays"), exist_ok=True)
    violations, inconcl, errors, known_lines = [], [], [], []
    selfcheck_summary = None
    if selfcheck is not None:
        try:
            so, se = selfcheck.communicate(timeout=600)
            selfcheck_summary = json.loads(so.strip().splitlines()[-1])
            if selfcheck.returncode != 0 or selfcheck_summary.get("mismatches", 1) != 0:
                errors.append(dict(key="symx.selfcheck", result="error", why="proxy semantics disagree with the installed Python/NumPy: %s" % so[-800:]))
        except Exception as e:  # noqa
            selfcheck.kill()
            errors.append(dict(key="symx.selfcheck", result="error", why="engine self-check did not complete: %s" % e))
    confirmed_known = set()
    replayed_per_fn = {}  # reproduced counterexamples per harness function
    attempts_per_fn = {}
    unreplayed = 0
    for r in sorted(results, key=lambda r: r["key"]):
        confirm = r["mode"].get("confirm")
        if r["result"] == "cex":
            fk = (r["fn"], confirm)
            if replayed_per_fn.get(fk, 0) >= MAX_REPLAYS_PER_FN or attempts_per_fn.get(fk, 0) >= MAX_REPLAY_ATTEMPTS_PER_FN:
                unreplayed += 1
                continue
            attempts_per_fn[fk] = attempts_per_fn.get(fk, 0) + 1
            # the evidence path is part of the name: concurrent runs of the same check (seed trials in scratch worktrees) must not share replay files
            tag = "%s_%s_%s" % (prop, r["fn"], hashlib.sha256((r["key"] + str(confirm) + str(a.evidence or "") + REPO).encode()).hexdigest()[:10])
            path = os.path.join(ROOT, "replays", tag + ".json")
            json.dump(dict(property=prop, fn=r["fn"], key=r["key"], params=r["params"], values=r["values"],
                           failed=r["failed"], mode=r["mode"]), open(path, "w"), indent=1)
            p = subprocess.run([sys.executable, "-m", "symx.runner", prop, "--replay", path], cwd=ROOT,
                               capture_output=True, text=True, timeout=600)
            r["replay_rc"] = p.returncode
            r["replay_out"] = p.stdout[-800:] + p.stderr[-800:]
            r["replay_path"] = path
            if p.returncode == 10:
                replayed_per_fn[fk] = replayed_per_fn.get(fk, 0) + 1
                if confirm:
                    confirmed_known.add(confirm)
                else:
                    violations.append(r)
            else:
                errors.append(dict(r, why="counterexample did not reproduce on unpatched code: rc=%s %s" % (
                    p.returncode, r["replay_out"])))
        elif r["result"] == "inconclusive":
            if confirm:
                pass  # a confirm run that cannot conclude says nothing about the tree
            else:
                inconcl.append(r)
        elif r["result"] == "error":
            errors.append(r)
    for k in known:
        if k["id"] in confirmed_known:
            known_lines.append("KNOWN-FINDING: property=%s %s [%s]" % (prop, k["what"], k["id"]))
    main_results = [r for r in results if not r["mode"].get("confirm")]
    wall = time.time() - t0
    # ---- evidence
    tot = lambda k: sum(r.get("stats", {}).get(k, 0) for r in results)  # noqa
    nontrivial = sorted({r["key"] for r in main_results if r.get("reached", 0) > 0 and r["result"] in ("holds", "cex")})
    samples = []
    for r in main_results:
        if r.get("witness") and len(samples) < 6:
            samples.append({"instance": r["key"], "fn": r["fn"], "reachability_witness": r["witness"],
                            "paths": r["paths"], "claims": r.get("claims")})
    for r in violations[:3]:
        samples.append({"instance": r["key"], "counterexample": r["values"], "failed": r["failed"]})
    ev = {
        "property_id": prop,
        "tier": a.tier if a.tier in ("quick", "thorough") else "quick",
        "seed": seed,
        "level": "other",
        "coverage": {
            "explanation": (
                "Bounded solver-based checking of the real code: the listed functions of /repo (imported from the "
                "live working tree in this run) were executed on z3-backed proxy values; every feasible path within "
                "the stated bounds was explored and for each the query  path-condition AND NOT(property)  was "
                "discharged by z3 (unsat = holds for all values in the bound). Counterexamples are replayed on the "
                "unpatched code before being reported. " + getattr(mod, "EXPLANATION", "")),
            "evaluations": len(main_results),
            "distinct_nontrivial": len(nontrivial),
            "rule": "one evaluation = one harness instance (enumerated concrete parameters) explored over all its "
                    "feasible paths with symbolic inputs; non-trivial = at least one path reached the assertion with a "
                    "satisfiable path condition (vacuity witness recorded); distinct by instance key",
            "samples": samples or [{"note": "no instance produced a witness"}],
            "obligations": tot("queries"),
            "discharged": tot("unsat") + tot("sat"),
            "solver_unknown": tot("unknown"),
            "paths_explored": sum(r.get("paths", 0) for r in results),
            "paths_reaching_assertion": sum(r.get("reached", 0) for r in results),
            "solver_time_s": round(tot("solver_s"), 2),
            "functions_encoded": source_hashes(mod),
            "shims": getattr(mod, "SHIMS", []),
            "bounds": getattr(mod, "BOUNDS", {}).get(a.tier, getattr(mod, "BOUNDS", {})),
            "outside_claim": getattr(mod, "OUTSIDE", []),
            "instances": len(insts),
            "instance_results": {k: sum(1 for r in main_results if r["result"] == k) for k in
                                 ("holds", "cex", "inconclusive", "error")},
            "known_findings_confirmed": sorted(confirmed_known),
            "slowest_instances": [[r["key"], round(r.get("task_wall_s", 0), 1), r.get("paths")] for r in
                                  sorted(results, key=lambda r: -r.get("task_wall_s", 0))[:5]],
            "engine": "symx (z3 %s)" % __import__("z3").get_version_string(),
            "checker_cmd": "./check %s --tier %s" % (prop, a.tier),
            "engine_selfcheck": selfcheck_summary or "skipped (--only run)",
            "second_solver": {"solver": "cvc5 (python wheel) on z3's SMT-LIB print of the final query, 3 s limit", "queries_agreeing": tot("cvc5_agree"),
                              "cvc5_unknown_or_timeout": tot("cvc5_unknown"), "disagreements": tot("cvc5_disagree"), "unavailable": tot("cvc5_unavailable")},
            "trusted_base": ["z3", "symx proxy semantics (validated in this run by symx.selfcheck, see engine_selfcheck)", "reference models in harness/%s.py" % prop.lower()],
            "exhaustive": False,
        },
        "assumptions": getattr(mod, "ASSUMPTIONS", []),
        "wall_s": round(wall, 2),
        "violations": len(violations),
    }
    extra = getattr(mod, "extra_evidence", None)
    if extra:
        try:
            ev["coverage"].update(extra(a.tier, results))
        except Exception as e:  # noqa
            ev["coverage"]["extra_evidence_error"] = str(e)
    if inconcl or errors:
        ev["coverage"]["problems"] = [dict(key=r["key"], result=r["result"], why=str(r.get("why"))[:600]) for r in (inconcl + errors)[:20]]
    evpath = a.evidence or os.path.join(ROOT, "evidence", "%s.json" % prop)
    os.makedirs(os.path.dirname(evpath), exist_ok=True)
    if not a.only:
        json.dump(ev, open(evpath, "w"), indent=1, default=str)
    # ---- report
    for line in known_lines:
        print(line)
    print("%s tier=%s instances=%d paths=%d queries=%d solver=%.1fs wall=%.1fs holds=%d cex=%d inconclusive=%d error=%d" % (
        prop, a.tier, len(main_results), ev["coverage"]["paths_explored"], ev["coverage"]["obligations"],
        ev["coverage"]["solver_time_s"], wall, ev["coverage"]["instance_results"]["holds"],
        ev["coverage"]["instance_results"]["cex"], ev["coverage"]["instance_results"]["inconclusive"],
        ev["coverage"]["instance_results"]["error"]))
    if unreplayed:
        print("(%d further counterexamples of the same harness functions were not replayed individually)" % unreplayed)
    if os.environ.get("VERIF_VERBOSE"):
        print("slowest:", ev["coverage"]["slowest_instances"])
    if violations:
        for r in violations:
            print("VIOLATION property=%s replay=%s" % (prop, r["replay_path"]))
            print("  instance=%s failed=%s values=%s" % (r["key"], r["failed"], json.dumps(r["values"])[:600]))
        return 1
    if errors:
        for r in errors[:10]:
            print("HARNESS-ERROR %s: %s" % (r["key"], str(r.get("why"))[:1500]))
        return 3
    if inconcl:
        for r in inconcl[:10]:
            print("INCONCLUSIVE %s: %s" % (r["key"], str(r.get("why"))[:600]))
        return 2
    return 0


if __name__ == "__main__":
    sys.exit(main())
