"""C10 - splitting an operator into stripes does not change what it computes.

rows      : padding/skirt derivation -> Box.transform_with_strides_and_skirt -> create_padding's top/bottom rule, against the
            convolution receptive field (sampling equivalence per output row and kernel tap), symbolic geometry.
cols      : same for the width axis (un-striped; create_padding's left/right clipping rule).
partition : the real stripe loops of generate_high_level_commands_for_sched_op with stand-in schedule objects: OFM boxes
            partition the OFM; every stripe satisfies the sampling equivalence.
rolling   : 2-op cascade through the real generator: rows needed by each consumer stripe are present and not yet overwritten
            in a rolling buffer of the height rolling_buffer_shape() gives.
area      : get_ifm_area_required() >= height of every stripe's IFM box.
"""
import z3

from symx import core, rat
from symx.core import SInt, SBool, L, B

EXPLANATION = "C10: stripe/padding chain vs convolution receptive field on symbolic geometry; stripe partition; rolling buffers."
SHIMS = ["high_level_command_stream / tflite_graph_optimiser / graph_optimiser_util: min,max -> ite shims, int -> identity on proxies",
         "numpy.subtract on lists containing proxies yields object arrays (real numpy)"]
ASSUMPTIONS = [
    "hardware-side rule (Ethos-U programming model as restated in DESIGN.md): for an OFM stripe of oh rows, dilated kernel k, stride s and "
    "programmed pads (top, bottom), output row j / tap t reads local IFM row j*s - top + t of the declared IFM box when 0 <= row < "
    "(oh-1)*s + k - top - bottom, and the padding value otherwise (the NPU derives the valid IFM extent from OFM size, kernel, stride and pads)",
    "reference: TFLite conv/pool: output row y, tap t reads input row y*s - PT + t when inside [0, H) and padding otherwise; for EXPLICIT "
    "padding PT is the PAD operator's top amount and OFM height = (H + top + bottom - k)//s + 1",
    "EXPLICIT pads are constrained exactly as replace_pad_by_hw_pad admits them: 0 <= pad <= k//2 and (top == k//2 or k//2 <= stride or top % stride == 0)",
    "x2 NEAREST ops: kernel in {1,2,4,8} (what convert_resize_to_upscale_and_average_pool generates) and even stripe boundaries "
    "('is nearest requires even stripes', scheduler.py propose_minimal_schedule/propose_schedule_striping); TRANSPOSE convolutions are "
    "never striped (cascade_builder._is_cascadable excludes them; un-cascaded ops use the full-height fallback stripe)",
    "create_padding: programmed top/bottom = the op's explicit_padding attribute when the stripe is both first and last, else the per-stripe pad_top/pad_bottom",
]
OUTSIDE = ["stripe sequences chosen by the scheduler for real networks", "width striping (not produced by the scheduler)", "sub-kernel splitting inside the NPU"]
BOUNDS = {
    "quick": {"rows": "H in [1,64], dilated kernel in [1,8], stride 1..3, SAME/VALID/EXPLICIT, striped and un-striped, symbolic stripe [a,b), row y and tap t"},
    "thorough": {"rows": "H in [1,4096], dilated kernel in [1,16]"},
}


def ENCODED():
    import ethosu.vela.high_level_command_stream as hl
    import ethosu.vela.tflite_graph_optimiser as go
    import ethosu.vela.graph_optimiser_util as gu
    import ethosu.vela.high_level_command_to_npu_op as h2n
    import ethosu.vela.high_level_command_stream_generator as gen

    import ethosu.vela.npu_performance  # noqa (breaks the scheduler <-> npu_performance import cycle)
    import ethosu.vela.scheduler as sch

    return [sch.Scheduler.propose_minimal_schedule, sch.Scheduler.propose_schedule_striping, hl.Box.transform_with_strides_and_skirt, hl.Box.__init__, go.calc_padding_and_skirt, go.calc_upscaled_padding_and_skirt,
            gu.needed_total_padding, gu.calc_explicit_padding, h2n.create_padding, gen.generate_high_level_commands_for_sched_op,
            __import__("ethosu.vela.register_command_stream_util", fromlist=["x"]).to_npu_kernel,
            __import__("ethosu.vela.register_command_stream_util", fromlist=["x"]).to_kernel]


def _mods():
    import ethosu.vela.high_level_command_stream as hl
    import ethosu.vela.tflite_graph_optimiser as go
    import ethosu.vela.graph_optimiser_util as gu

    return hl, go, gu


class _SNP:
    """numpy stand-in for high_level_command_stream: subtract() keeps dtype=object so proxies can be stored in the result"""

    def subtract(self, a, b):
        import numpy as np

        return np.subtract(np.array(list(a), dtype=object), np.array(list(b), dtype=object))

    def __getattr__(self, n):
        import numpy as np

        return getattr(np, n)


def _shims():
    hl, go, gu = _mods()
    return ((hl, {"min": core.smin, "max": core.smax, "int": core.sint, "np": _SNP()}), (go, {"min": core.smin, "max": core.smax, "int": core.sint}),
            (gu, {"min": core.smin, "max": core.smax}))


class _K:
    def __init__(self, kw, kh, sx, sy):
        self.kw, self.kh = kw, kh
        self.stride = (sx, sy)

    def dilated_wh(self):
        return (self.kw, self.kh)


def _padding(V, mode, H, k, stride, axis):
    """runs the real padding/skirt derivation for one axis; returns (PT_ref, OH, pad_before_attr, pad_after_attr, skirt_before, skirt_after)"""
    hl, go, gu = _mods()
    from ethosu.vela.shape4d import Shape4D
    from ethosu.vela.operation import Padding

    if axis == "y":
        kern = _K(1, k, 1, stride)
        shape = Shape4D(1, H, 16, 16)
    else:
        kern = _K(k, 1, stride, 1)
        shape = Shape4D(1, 16, H, 16)
    if mode == "SAME":
        padding, skirt = go.calc_padding_and_skirt(Padding.SAME, kern, shape, None)
        OH = (L(H) + stride - 1) / stride
        explicit = None
    elif mode == "VALID":
        V.assume(L(H) >= L(k))
        padding, skirt = go.calc_padding_and_skirt(Padding.VALID, kern, shape, None)
        OH = (L(H) - L(k)) / stride + 1
        explicit = None
    else:
        pt = V.int("pad_before", 0, 8)
        pb = V.int("pad_after", 0, 8)
        half = L(k) / 2
        V.assume(z3.And(L(pt) <= half, L(pb) <= half, L(H) + L(pt) + L(pb) >= L(k)))
        V.assume(z3.Or(L(pt) == half, half <= stride, L(pt) % stride == 0))  # _leading_pad_ok
        ex = (pt, 0, pb, 0) if axis == "y" else (0, pt, 0, pb)
        padding, skirt = go.calc_padding_and_skirt(Padding.EXPLICIT, kern, shape, ex)
        OH = (L(H) + L(pt) + L(pb) - L(k)) / stride + 1
        explicit = (pt, pb)
    i0, i1 = (0, 2) if axis == "y" else (1, 3)
    PT_ref = L(explicit[0]) if explicit else L(padding[i0])
    return PT_ref, OH, padding[i0], padding[i1], skirt, explicit


class _Obj0:
    def __init__(self, **kw):
        self.__dict__.update(kw)


def _real_create_padding(box, attr_pads, first, last, pad_top, pad_bottom, ifm_width, read_offset=None, read_shape=None):
    """the real create_padding() on stand-in command / operation objects; attr_pads = (top, left, bottom, right) of the operator"""
    import ethosu.vela.high_level_command_to_npu_op as h2n
    from ethosu.vela.operation import NpuBlockType

    cmd = _Obj0(is_first_h_stripe=first, is_last_h_stripe=last, pad_top=pad_top, pad_bottom=pad_bottom, ifm_box=box,
                ps=_Obj0(ifm_shapes=[_Obj0(width=ifm_width, depth=16)]), ifm_tensor=None)
    op = _Obj0(type=_Obj0(npu_block_type=NpuBlockType.ConvolutionDepthWise), attrs={"explicit_padding": tuple(attr_pads)},
               read_offsets=[read_offset, None], read_shapes=[read_shape, None])
    with core.shims((h2n, {"min": core.smin, "max": core.smax})):
        return h2n.create_padding(cmd, op, None)


def rows(V, stride, mode, striped, hmax, kmax, split=0):
    hl, go, gu = _mods()
    from ethosu.vela.shape4d import Shape4D
    from ethosu.vela.operation import NpuBlockType

    H = V.int("H", 1, hmax)
    k = V.int("k", 1, kmax)
    a = V.int("a", 0, hmax + 8)
    b = V.int("b", 1, hmax + 9)
    y = V.int("y", 0, hmax + 8)
    t = V.int("tap", 0, kmax - 1)
    with core.shims(*_shims()):
        PT, OH, p_top_attr, p_bot_attr, skirt, explicit = _padding(V, mode, H, k, stride, "y")
        if striped:
            V.assume(z3.And(L(a) < L(b), L(b) <= OH, z3.Not(z3.And(L(a) == 0, L(b) == OH))))
        else:
            V.assume(z3.And(L(a) == 0, L(b) == OH))
        V.assume(z3.And(L(y) >= L(a), L(y) < L(b), L(t) < L(k)))
        if mode == "EXPL":
            V.finding("C10-explicit-pad-after-kernel-smaller-than-stride", z3.And(L(k) < stride, z3.Not(B(striped))))
            V.finding("C10-pad-bottom-ofm-below-ifm", z3.And(B(striped), L(b) > L(H)))
        box = hl.Box([0, a, 0, 0], [1, b, 8, 16])
        if split:
            # the operator reads a slice of a taller tensor (a Split / StridedSlice fused into it): rows [off, off + H) of a tensor of height off + H + below
            off, below = V.int("read_offset", 0, hmax), V.int("rows_below_slice", 0, 8)
            res, ptop, pbot = box.transform_with_strides_and_skirt([1, stride, 1, 1], list(skirt), Shape4D(1, off + H + below, 16, 16),
                                                                   NpuBlockType.ConvolutionDepthWise, [0, 0, 0, 0], k, Shape4D(0, off, 0, 0), Shape4D(1, H, 16, 16))
        else:
            off = 0
            res, ptop, pbot = box.transform_with_strides_and_skirt([1, stride, 1, 1], list(skirt), Shape4D(1, H, 16, 16),
                                                                   NpuBlockType.ConvolutionDepthWise, [0, 0, 0, 0], k)
    S, E = L(res.start_coord[1]) - L(off), L(res.end_coord[1]) - L(off)  # relative to the slice the operator reads
    # the pads the register generator programs: the real create_padding (whole-operator pads from the attribute, per-stripe pads otherwise)
    pads = _real_create_padding(res, (p_top_attr, 0, p_bot_attr, 0), not striped, not striped, ptop, pbot, 16)
    p_t, p_b = L(pads.top), L(pads.bottom)
    return _sampling_claims(L(H), L(k), stride, L(a), L(b), L(y), L(t), PT, S, E, p_t, p_b)


def _sampling_claims(H, k, stride, a, b, y, t, PT, S, E, p_t, p_b, tag=""):
    r = y * stride - PT + t  # reference input row of this tap
    ref_pad = z3.Or(r < 0, r >= H)
    oh = b - a
    rl = (y - a) * stride - p_t + t  # local row the hardware addresses
    extent = (oh - 1) * stride + k - p_t - p_b  # valid IFM rows the hardware derives
    hw_pad = z3.Or(rl < 0, rl >= extent)
    hw_row = S + rl
    return [(tag + "padding taps agree (hardware pads exactly where the reference pads)", ref_pad == hw_pad),
            (tag + "non-padding tap reads the reference row", z3.Implies(z3.Not(ref_pad), hw_row == r)),
            (tag + "row read lies inside the declared IFM box", z3.Implies(z3.Not(hw_pad), z3.And(hw_row >= S, hw_row < E))),
            (tag + "declared IFM box inside the tensor", z3.And(S >= 0, E <= H, S < E)),
            (tag + "programmed pads are non-negative", z3.And(p_t >= 0, p_b >= 0))]


def cols(V, stride, mode, hmax, kmax, split=0):
    """width axis, un-striped: create_padding keeps left/right because the box spans the full width"""
    hl, go, gu = _mods()
    from ethosu.vela.shape4d import Shape4D
    from ethosu.vela.operation import NpuBlockType

    W = V.int("W", 1, hmax)
    k = V.int("k", 1, kmax)
    x = V.int("x", 0, hmax + 8)
    t = V.int("tap", 0, kmax - 1)
    with core.shims(*_shims()):
        PL, OW, p_l, p_r, skirt, explicit = _padding(V, mode, W, k, stride, "x")
        V.assume(z3.And(L(x) < OW, L(t) < L(k)))
        if mode == "EXPL":
            V.finding("C10-explicit-pad-after-kernel-smaller-than-stride", L(k) < stride)
        zero = SInt(z3.IntVal(0)) if V.symbolic else 0  # keeps numpy's coordinate array at dtype=object
        box = hl.Box([0, 0, zero, 0], [1, 4, SInt(OW) if V.symbolic else z3.simplify(OW).as_long(), 16])
        if split:
            off, right_of = V.int("read_offset", 0, hmax), V.int("columns_right_of_slice", 0, 8)
            wt = off + W + right_of
            res, _, _ = box.transform_with_strides_and_skirt([1, 1, stride, 1], list(skirt), Shape4D(1, 4, wt, 16), NpuBlockType.ConvolutionDepthWise,
                                                             [0, 0, 0, 0], 1, Shape4D(0, 0, off, 0), Shape4D(1, 4, W, 16))
            pads = _real_create_padding(res, (0, p_l, 0, p_r), True, True, 0, 0, wt, Shape4D(0, 0, off, 0), Shape4D(1, 4, W, 16))
        else:
            off = 0
            res, _, _ = box.transform_with_strides_and_skirt([1, 1, stride, 1], list(skirt), Shape4D(1, 4, W, 16),
                                                             NpuBlockType.ConvolutionDepthWise, [0, 0, 0, 0], 1)
            pads = _real_create_padding(res, (0, p_l, 0, p_r), True, True, 0, 0, W)
    S, E = L(res.start_coord[2]) - L(off), L(res.end_coord[2]) - L(off)  # relative to the slice the operator reads
    return _sampling_claims(L(W), L(k), stride, L(0), OW, L(x), L(t), PL, S, E, L(pads.left), L(pads.right), tag="[width] ")


def rows_upscaled(V, kind, striped, hmax, kmax):
    """x2 upscaling (NEAREST resize stages and TRANSPOSE convolution).  Model-light claim: every IFM row that a tap of the
    stripe's receptive field maps to (upscaled row u -> IFM row u // 2) lies inside the stripe's declared IFM box, the box lies
    inside the tensor, pads are non-negative.  (Exact pad semantics under upscaling are outside the claim.)"""
    hl, go, gu = _mods()
    from ethosu.vela.shape4d import Shape4D
    from ethosu.vela.operation import NpuBlockType, Padding

    up = 2
    H = V.int("H", 1, hmax)
    k = V.int("k", 1, kmax)
    a = V.int("a", 0, 2 * hmax + 8)
    b = V.int("b", 1, 2 * hmax + 9)
    y = V.int("y", 0, 2 * hmax + 8)
    t = V.int("tap", 0, kmax - 1)
    with core.shims(*_shims()):
        shape = Shape4D(1, H, 16, 16)
        if kind == "bilinear":  # last stage of ResizeBilinear: avgpool k x k, stride 1, explicit pad (0,0,k-1,k-1), OFM = 2H
            padding, skirt = go.calc_padding_and_skirt(Padding.EXPLICIT, _K(1, k, 1, 1), shape, (0, 0, k - 1, 0))
            OH = 2 * L(H)
        elif kind == "bilinear_ac":  # align_corners: VALID, OFM = 2H - k + 1
            V.assume(2 * L(H) >= L(k))
            padding, skirt = go.calc_padding_and_skirt(Padding.VALID, _K(1, k, 1, 1), shape, None)
            OH = 2 * L(H) - L(k) + 1
        elif kind == "transpose_same":
            padding, skirt = go.calc_upscaled_padding_and_skirt(Padding.SAME, (k, 1), (1, 2, 2, 1), shape, up, up)
            OH = 2 * L(H)
        else:  # transpose_valid: OFM = 2H + max(k - 2, 0)
            padding, skirt = go.calc_upscaled_padding_and_skirt(Padding.VALID, (k, 1), (1, 2, 2, 1), shape, up, up)
            OH = 2 * L(H) + z3.If(L(k) > 2, L(k) - 2, 0)
        if striped:
            V.assume(z3.And(L(a) < L(b), L(b) <= OH, z3.Not(z3.And(L(a) == 0, L(b) == OH))))
        else:
            V.assume(z3.And(L(a) == 0, L(b) == OH))
        V.assume(z3.And(L(y) >= L(a), L(y) < L(b), L(t) < L(k)))
        if kind.startswith("bilinear"):
            # what the lowering generates (convert_resize_to_upscale_and_average_pool): kernel == total upscale factor in {1,2,4,8};
            # "is nearest requires even stripes" (scheduler.py propose_minimal_schedule / propose_schedule_striping)
            V.assume(z3.Or(L(k) == 1, L(k) == 2, L(k) == 4, L(k) == 8))
            V.assume(z3.And(L(a) % 2 == 0, z3.Or(L(b) % 2 == 0, L(b) == OH)))
        box = hl.Box([0, a, 0, 0], [1, b, 8, 16])
        res, ptop, pbot = box.transform_with_strides_and_skirt([1, 1, 1, 1], list(skirt), shape, NpuBlockType.ConvolutionDepthWise,
                                                               [0, 0, 0, 0], k, None, None, up)
    S, E = L(res.start_coord[1]), L(res.end_coord[1])
    u = L(y) - L(skirt[0]) + L(t)  # upscaled input row of this tap (top padding in upscaled space == skirt top)
    inside = z3.And(u >= 0, u < 2 * L(H))
    if kind.startswith("transpose"):
        inside = z3.And(inside, u % 2 == 0)  # TRANSPOSE upscaling inserts zeros at the odd upscaled rows: no data is read there
    return [("[x2] IFM row of a non-padding tap lies inside the declared IFM box", z3.Implies(inside, z3.And(S <= u / 2, u / 2 < E))),
            ("[x2] declared IFM box inside the tensor", z3.And(S >= 0, E <= L(H), S < E)),
            ("[x2] pads non-negative", z3.And(L(ptop) >= 0, L(pbot) >= 0))]


def tconv_pads(V, sx, sy, padding):
    """transpose convolution: the REAL fixup_conv2d_backprop + add_padding_fields on a stand-in operator with symbolic kernel and IFM size (OFM
    size as the TFLite shape rule gives it for the stride and padding).  The NPU runs it as an ordinary convolution with the weights flipped in
    both axes (weight_compressor) over the input with zeros inserted between the samples (x2 TRANSPOSE resampling per upscaled axis; the
    lowering uses one resampling mode for both axes, so a stride 2x1 operator has a one-row, kernel-height-1 geometry).  Output o then reads
    upscaled sample o - P + t for tap t; it equals the TFLite reference (out[i*s - pad + f] += in[i]*w[f], pad = max((in-1)*s + k - out, 0)//2)
    exactly when P = k - 1 - pad.  Claimed for the leading (top/left) pad per axis, in upscaled coordinates (what the skirt carries)."""
    hl, go, gu = _mods()
    from ethosu.vela.shape4d import Shape4D
    from ethosu.vela.operation import Op, Padding, Kernel
    from ethosu.vela.ethos_u55_regs.ethos_u55_regs import resampling_mode

    kw, kh = V.int("kw", 1, 16), V.int("kh", 1, 16)
    ih, iw = V.int("ifm_h", 1, 256), V.int("ifm_w", 1, 256)
    if (sx, sy) == (2, 1):
        V.assume(z3.And(L(kh) == 1, L(ih) == 1))  # the only 2x1 geometry the supported-operator check lets through
    pad = Padding.SAME if padding == "SAME" else Padding.VALID

    def out(i, s, k):
        if padding == "SAME":
            return i * s
        d = k - s
        return i * s + (d if d > 0 else 0)

    saved_dd = go.DebugDatabase
    go.DebugDatabase = _Obj(add_optimised=lambda *a: None)  # bookkeeping only; a stub in both modes because the operator is a stand-in
    try:
        return _tconv_pads(V, go, sx, sy, padding, pad, kw, kh, ih, iw, out)
    finally:
        go.DebugDatabase = saved_dd


def _tconv_pads(V, go, sx, sy, padding, pad, kw, kh, ih, iw, out):
    from ethosu.vela.shape4d import Shape4D
    from ethosu.vela.operation import Op, Kernel
    from ethosu.vela.ethos_u55_regs.ethos_u55_regs import resampling_mode

    with core.shims(*_shims()):
        oh, ow = out(ih, sy, kh), out(iw, sx, kw)
        w = _Obj(shape=[kh, kw, 8, 8])
        op = _Obj(type=Op.Conv2DBackpropInput, run_on_npu=True, inputs=[_Obj(name="shape"), w, _Obj(name="ifm")], kernel=Kernel(1, 1, sx, sy),
                  attrs={"padding": pad, "strides": (1, sy, sx, 1), "stride_w": sx, "stride_h": sy}, ifm_resampling_mode=resampling_mode.NONE,
                  ifm_shapes=[Shape4D(1, ih, iw, 8)], ofm_shapes=[Shape4D(1, oh, ow, 8)])
        op = go.fixup_conv2d_backprop(op, None, None)
        # the kernel object is rebuilt from the attributes after the fix-up (strides 1x1); sizes from the weight tensor
        op.kernel = _K(kw, kh, 1, 1)
        op = go.add_padding_fields(op, None, None)
    top, left, bottom, right = op.attrs["explicit_padding"]
    sk = op.attrs["skirt"]
    cl = []
    for axis, s, k, i, o, p, skp in (("height", sy, kh, ih, oh, top, sk[0]), ("width", sx, kw, iw, ow, left, sk[1])):
        total = (L(i) - 1) * s + L(k) - L(o)
        tf_pad = z3.If(total > 0, total, 0) / 2
        want = L(k) - 1 - tf_pad
        fid = "C10-transpose-conv-stride1-padding-not-mirrored"
        claim = L(p) == want
        if s == 1:
            # region of the recorded finding: an axis without upscaling whose TFLite padding is asymmetric (SAME, even kernel) or whose output is
            # larger than its input (VALID, kernel > 1)
            claim = V.except_finding(fid, z3.Or(L(k) % 2 == 0, z3.And(padding == "VALID", L(k) > 1)), claim)
        cl.append(("%s: leading pad == kernel - 1 - TFLite padding (flipped kernel) [%s]" % (axis, fid) if s == 1 else
                   "%s: leading pad == kernel - 1 - TFLite padding (flipped kernel, upscaled coordinates)" % axis, claim))
        cl.append(("%s: skirt carries the leading pad" % axis, L(skp) == L(p)) if s != 1 else ("%s: skirt is non-negative" % axis, L(skp) >= 0))
    return cl


# ---------------------------------------------------------------------------------------------- area / cascade


def _aa_shims():
    import ethosu.vela.architecture_allocator as aa

    return (aa, {"min": core.smin, "max": core.smax, "int": core.sint, "math": rat.SMATH})


def area(V, stride, dil, mode, nearest, hmax):
    """scheduler's stripe input requirement (get_ifm_area_required) >= height of the IFM box the command generator
    declares for any stripe of that height (same kernel); width likewise.  Kernel width/height are independent symbols."""
    hl, go, gu = _mods()
    import ethosu.vela.architecture_allocator as aa
    from ethosu.vela.operation import Kernel, NpuBlockType, Padding
    from ethosu.vela.shape4d import Shape4D
    from ethosu.vela.architecture_features import Block
    from ethosu.vela.ethos_u55_regs.ethos_u55_regs import resampling_mode

    H = V.int("H", 1, hmax)
    kh = V.int("kh", 1, 8)
    kw = V.int("kw", 1, 8)
    C = V.int("stripe", 1, hmax)
    a = V.int("a", 0, 2 * hmax)
    up = 2 if nearest else 1
    kern = Kernel(kw, kh, 1, stride, 1, dil)
    kd = kern.area_height()
    with core.shims(*(_shims() + (_aa_shims(),))):
        if nearest:
            V.assume(z3.Or(L(kh) == 1, L(kh) == 2, L(kh) == 4, L(kh) == 8))
            V.assume(z3.And(L(C) % 2 == 0, L(a) % 2 == 0))
            if mode == "VALID":
                V.assume(2 * L(H) >= L(kd))
                padding, skirt = go.calc_padding_and_skirt(Padding.VALID, kern, Shape4D(1, H, 16, 16), None)
                OH = 2 * L(H) - L(kd) + 1
            else:
                padding, skirt = go.calc_padding_and_skirt(Padding.EXPLICIT, kern, Shape4D(1, H, 16, 16), (0, 0, kh - 1, 0))
                OH = 2 * L(H)
        elif mode == "SAME":
            padding, skirt = go.calc_padding_and_skirt(Padding.SAME, kern, Shape4D(1, H, 16, 16), None)
            OH = (L(H) + stride - 1) / stride
        else:
            V.assume(L(H) >= L(kd))
            padding, skirt = go.calc_padding_and_skirt(Padding.VALID, kern, Shape4D(1, H, 16, 16), None)
            OH = (L(H) - L(kd)) / stride + 1
        V.assume(z3.And(L(a) < OH, L(C) <= OH))
        b = core.smin(a + C, SInt(OH))
        w1, h1 = aa.get_ifm_area_required(Block(8, C, 16), kern, resampling_mode.NEAREST if nearest else resampling_mode.NONE)
    # rows of the IFM actually read by the stripe [a, b) (reference receptive field, clipped to the tensor)
    PT = L(0) if nearest else L(padding[0])
    lo = L(a) * stride - PT
    hi = (L(b) - 1) * stride - PT + L(kd)  # exclusive, in (upscaled) input rows
    lo = z3.If(lo < 0, 0, lo)
    hi = z3.If(hi > up * L(H), up * L(H), hi)
    first_row, last_row = lo / up, (hi - 1) / up
    obl = rat.exactness_obligations()
    return [("stripe input requirement covers the rows the stripe reads", z3.Implies(hi > lo, L(h1) >= last_row - first_row + 1)),
            ("stripe input requirement is at least one row", L(h1) >= 1)] + [("float division exact", o) for o in obl]


class _Obj:
    def __init__(self, **kw):
        self.__dict__.update(kw)


def _srange(maxiter):
    import builtins

    def srange(*args):
        if not any(isinstance(x, SInt) for x in args):
            return builtins.range(*args)
        if len(args) == 1:
            start, end, step = 0, args[0], 1
        elif len(args) == 2:
            start, end, step = args[0], args[1], 1
        else:
            start, end, step = args

        def gen():
            cur = start
            n = 0
            while cur < end:  # forks on symbolic bounds
                if n >= maxiter:
                    raise core.PathAbort("loop bound %d exceeded" % maxiter)
                yield cur
                cur = cur + step
                n += 1

        return gen()

    return srange


def cascade(V, P, C, stride, mode, kmax, hmax, dy=1):
    """the REAL generate_high_level_commands_for_sched_op on a 2-op cascade (producer 1x1 with stripe height P; consumer
    k x 1 depthwise, stride, stripe height C) with stand-in schedule objects and a symbolic tensor height.
    Claims: producer and consumer OFM stripes partition their OFMs in order; each consumer stripe starts only after the rows
    it reads have been produced, and none of them has been overwritten in a rolling buffer of the height
    rolling_buffer_shape() gives for (producer stripe, consumer stripe_input); sampling equivalence per stripe."""
    hl, go, gu = _mods()
    import ethosu.vela.high_level_command_stream_generator as gen
    import ethosu.vela.architecture_allocator as aa
    import ethosu.vela.cascade_builder as cb
    import ethosu.vela.numeric_util as nu
    from ethosu.vela.operation import Kernel, NpuBlockType, Padding, Op
    from ethosu.vela.shape4d import Shape4D
    from ethosu.vela.architecture_features import Block
    from ethosu.vela.ethos_u55_regs.ethos_u55_regs import resampling_mode

    W = 8
    H = V.int("H", 1, hmax)  # height of the intermediate feature map
    k = V.int("k", 1, kmax)
    y = V.int("y", 0, hmax)
    t = V.int("tap", 0, kmax - 1)
    kern_c = Kernel(1, k, 1, stride, 1, dy)  # kernel height k, height dilation dy, width dilation 1
    kd = kern_c.area_height()  # dilated kernel height
    kern_p = Kernel(1, 1, 1, 1, 1, 1)
    with core.shims(*(_shims() + (_aa_shims(), (gen, {"range": _srange(12), "min": core.smin, "max": core.smax}),
                                   (cb, {"max": core.smax, "min": core.smin})))):
        if mode == "SAME":
            padding, skirt = go.calc_padding_and_skirt(Padding.SAME, kern_c, Shape4D(1, H, W, 16), None)
            OH = (L(H) + stride - 1) / stride
        else:
            V.assume(L(H) >= L(kd))
            padding, skirt = go.calc_padding_and_skirt(Padding.VALID, kern_c, Shape4D(1, H, W, 16), None)
            OH = (L(H) - L(kd)) / stride + 1
        V.assume(z3.And(OH <= 4 * C, L(H) <= 10 * P, OH > C))  # loop bounds; consumer really striped
        V.assume(z3.And(L(y) < OH, L(t) < L(kd)))
        OHs = SInt(OH)
        mid = _Obj(shape=Shape4D(1, H, W, 16), connection=None)
        in0 = _Obj(shape=Shape4D(1, H, W, 16), connection=None)
        out = _Obj(shape=Shape4D(1, OHs, W, 16))
        tens = {n: _Obj(name=n, purpose=None) for n in ("in0", "mid", "out", "w")}
        wt = _Obj(shape=[k, 1, 1, 16], name="w")

        def mkop(name, ifm_t, ofm_t, w, kern, attrs, idx, ifm, ofm):
            parent_op = _Obj(attrs=attrs, read_offsets=[None, None], read_shapes=[None, None], write_offset=None, write_shape=None,
                             activation_lut=None, type=Op.DepthwiseConv2DBias, inputs=[], activation=None,
                             get_ifm_ifm2_weights_biases_ofm=lambda: (ifm_t, None, w, None, ofm_t))
            ps = _Obj(npu_block_type=NpuBlockType.ConvolutionDepthWise, ofm_tensor=ofm_t, ops=[], primary_op=parent_op, name=name,
                      ofm_shapes=[ofm.shape])
            return _Obj(parent_ps=ps, parent_op=parent_op, ifm=ifm, ifm2=None, ofm=ofm, kernel=kern, op_type=Op.DepthwiseConv2DBias,
                        resampling_mode=resampling_mode.NONE, reversed_operands=False, index=idx, name=name)

        prod = mkop("producer", tens["in0"], tens["mid"], _Obj(shape=[1, 1, 1, 16]), kern_p,
                    {"skirt": [0, 0, 0, 0], "explicit_padding": [0, 0, 0, 0]}, 0, in0, mid)
        cons = mkop("consumer", tens["mid"], tens["out"], wt, kern_c, {"skirt": list(skirt), "explicit_padding": list(padding), "dilation": (1, dy, 1, 1)}, 1, mid, out)
        mid.connection = _Obj(producers=[prod])
        bc = _Obj(old_style_representation=lambda: [1, 1, 1, 16])

        def info(stripe_h, full):
            return _Obj(cascade=1, block_config=bc, ofm_depth_slices=[0, 16], stripe=Shape4D(1, stripe_h, W, 16),
                        npu_weights_tensor=None, npu_scales_tensor=None, buffered_weight_tensors=[])

        schedule = _Obj(cost_map={prod: info(P, H), cons: info(C, OHs)}, cascades={1: _Obj(start=0, end=1)})
        # what the scheduler/cascade builder would size: consumer stripe_input and the rolling buffer
        w1, h1 = aa.get_ifm_area_required(Block(W, C, 16), kern_c, resampling_mode.NONE)
        B = cb.rolling_buffer_shape(Shape4D(1, P, W, 16), Shape4D(1, h1, w1, 16)).height
        cmds = list(gen.generate_high_level_commands_for_sched_op(cons, schedule))
    claims = []
    R = L(0)  # rows of the intermediate feature map written so far
    prev_cons_end = L(0)
    n_c = n_p = 0
    for cmd in cmds:
        if cmd.ps is prod.parent_ps:
            s0, e0 = L(cmd.ofm_box.start_coord[1]), L(cmd.ofm_box.end_coord[1])
            claims.append(("producer stripe %d continues where the previous ended" % n_p, s0 == R))
            claims.append(("producer stripe %d non-empty and inside the tensor" % n_p, z3.And(e0 > s0, e0 <= L(H))))
            R = e0
            n_p += 1
        else:
            a0, b0 = L(cmd.ofm_box.start_coord[1]), L(cmd.ofm_box.end_coord[1])
            S, E = L(cmd.ifm_box.start_coord[1]), L(cmd.ifm_box.end_coord[1])
            claims.append(("consumer stripe %d continues where the previous ended" % n_c, a0 == prev_cons_end))
            claims.append(("consumer stripe %d non-empty" % n_c, b0 > a0))
            claims.append(("consumer stripe %d: rows it reads have been produced" % n_c, E <= R))
            # recorded finding: the generator's IFM box end (b*stride + skirt) can lie up to stride-1 rows beyond the rows the stripe
            # reads; with a slack of >= 2 rows (stride 3) the producer is driven further ahead than the buffer sizing assumed
            needed_end = (b0 - 1) * stride - L(padding[0]) + L(kd)
            needed_end = z3.If(needed_end > L(H), L(H), needed_end)
            fid = "C10-rolling-buffer-overrun-stride3"
            claims.append(("[%s] consumer stripe %d: rows it reads not yet overwritten in the rolling buffer" % (fid, n_c),
                           V.except_finding(fid, E - needed_end >= 2, R - S <= L(B))))
            first, last = bool(cmd.is_first_h_stripe), bool(cmd.is_last_h_stripe)
            if first and last:
                p_t, p_b = L(padding[0]), L(padding[2])
            else:
                p_t, p_b = L(cmd.pad_top), L(cmd.pad_bottom)
            for nm, c in _sampling_claims(L(H), L(kd), stride, a0, b0, L(y), L(t), L(padding[0]), S, E, p_t, p_b, tag="stripe %d: " % n_c):
                claims.append((nm, z3.Implies(z3.And(L(y) >= a0, L(y) < b0), c)))
            prev_cons_end = b0
            n_c += 1
    claims.append(("consumer stripes cover the whole OFM", prev_cons_end == OH))
    claims.append(("producer ran far enough for the last consumer stripe only (no row beyond the tensor)", R <= L(H)))
    claims += [("float division exact", o) for o in rat.exactness_obligations()]
    return claims


def stripe_proposals(V, modes, cascaded):
    """Scheduler.propose_minimal_schedule / propose_schedule_striping on a chain of operators (stand-in scheduler ops, symbolic vertical
    strides): the OFM stripe height proposed for a producer is at least what its consumer's stride needs, and an operator that upscales its
    IFM by nearest-neighbour insertion only ever gets EVEN stripe heights - an odd stripe boundary makes every second stripe start on an
    odd OFM row, where the hardware's 2x replication reads the wrong IFM row (the `rows_upscaled` lemma assumes even boundaries)."""
    import ethosu.vela.npu_performance  # noqa (breaks the scheduler <-> npu_performance import cycle)
    import ethosu.vela.scheduler as sch
    from ethosu.vela.shape4d import Shape4D
    from ethosu.vela.ethos_u55_regs.ethos_u55_regs import resampling_mode

    n = len(modes)
    MODE = {"none": resampling_mode.NONE, "nearest": resampling_mode.NEAREST, "transpose": resampling_mode.TRANSPOSE}
    ops, recorded = [], {}
    for i, m in enumerate(modes):
        sy = V.int("stride_y_%d" % i, 1, 3)
        op = _Obj(name="op%d" % i, index=i, resampling_mode=MODE[m], kernel=_Obj(stride=_Obj(y=sy, x=1)), ofm=_Obj(shape=Shape4D(1, 64, 8, 16)),
                  ifm=_Obj(shape=Shape4D(1, 64, 8, 16)))

        def csi(nng, stripe, op=op):
            recorded.setdefault(op.name, []).append(stripe.height)
            return _Obj(block_config=None, cycles=None, npu_weights_tensor=None, buffered_weight_tensors=[], cascade=0, stripe=stripe)

        op.create_scheduler_info = csi
        ops.append(op)
    me = _Obj(sg=_Obj(name="sg"), sched_ops=ops, nng=None, scheduler_options=_Obj(verbose_progress=False), estimate_op_performance=lambda *a: 0)
    cl = []
    with core.shims((sch, {"max": core.smax, "min": core.smin})):
        sch.Scheduler.propose_minimal_schedule(me)
    hmin = {k: v[-1] for k, v in recorded.items()}
    for i, op in enumerate(ops):
        h = L(hmin[op.name])
        need = L(ops[i + 1].kernel.stride.y) if i + 1 < n else L(1)
        cl.append(("MIN schedule: stripe of op%d covers its consumer's vertical stride (and is the smallest such)" % i, z3.And(h >= need, h <= need + 1, h >= 1)))
        if modes[i] == "nearest":
            cl.append(("MIN schedule: nearest-upscaling op%d gets an even stripe height" % i, h % 2 == 0))
    # ---- striping proposal from a final stripe; all operators in one cascade of the reference schedule (or each on its own)
    recorded.clear()
    ref = _Obj(cost_map={op: _Obj(buffered_weight_tensors=[], cascade=(1 if cascaded else i + 1)) for i, op in enumerate(ops)})
    F = V.int("final_stripe_height", 1, 64)
    if modes[-1] == "nearest":
        V.assume(L(F) % 2 == 0)  # the caller's job for the last operator (not examined here)
    with core.shims((sch, {"max": core.smax, "min": core.smin})):
        sch.Scheduler.propose_schedule_striping(me, Shape4D(1, F, 8, 16), "T", ref)
    hs = {k: v[-1] for k, v in recorded.items()}
    for i, op in enumerate(ops):
        h = L(hs[op.name])
        if i + 1 < n:
            hc = L(hs[ops[i + 1].name])
            st = L(ops[i + 1].kernel.stride.y)
            cl.append(("striping: producer op%d makes at least stride x (consumer stripe) rows per consumer stripe, at most one stripe row more" % i,
                       z3.And(h >= hc * st, h <= (hc + 1) * st)))
        if modes[i] == "nearest" and (cascaded or i == n - 1):
            cl.append(("striping: nearest-upscaling op%d gets an even stripe height" % i, h % 2 == 0))
    return cl


def restripe_buffers(V, nbuf):
    """a striping proposal re-encodes the weights for its own block configuration: the SRAM weight buffers it creates
    (Scheduler.propose_schedule_striping + buffer_tensor) are as large as THAT encoding's double-buffer sizes, whatever the reference schedule's
    buffers were - the DMA lengths and weight ranges come from the new encoding, so a buffer that keeps the old size is overrun.
    Symbolic old and new sizes, one or two buffers."""
    import ethosu.vela.npu_performance  # noqa: F401
    import ethosu.vela.scheduler as sch
    import ethosu.vela.tensor as tensor
    from ethosu.vela.shape4d import Shape4D
    from ethosu.vela.tensor import MemArea, TensorSubPurpose
    from ethosu.vela.ethos_u55_regs.ethos_u55_regs import resampling_mode

    old = [V.int("reference_buffer%d" % i, 16, 1 << 20) for i in range(nbuf)]
    new = [V.int("new_encoding_buffer%d" % i, 16, 1 << 20) for i in range(2)]
    sub = TensorSubPurpose.DoubleBuffer if nbuf == 2 else TensorSubPurpose.Standard
    ref_bufs = [_Obj(sub_purpose=sub, name="buf%d" % i, storage_size=lambda i=i: old[i]) for i in range(nbuf)]
    wt = _Obj(name="weights", double_buffer_sizes=list(new))
    op = _Obj(name="op", index=0, resampling_mode=resampling_mode.NONE, kernel=_Obj(stride=_Obj(y=1, x=1)), ofm=_Obj(shape=Shape4D(1, 64, 8, 16)),
              ifm=_Obj(shape=Shape4D(1, 64, 8, 16)))
    op.create_scheduler_info = lambda nng, stripe: _Obj(block_config=None, cycles=None, npu_weights_tensor=wt, buffered_weight_tensors=[], cascade=0, stripe=stripe)
    me = _Obj(sg=_Obj(name="sg"), sched_ops=[op], nng=None, scheduler_options=_Obj(verbose_progress=False), estimate_op_performance=lambda *a: 0,
              arch=_Obj(fast_storage_mem_area=MemArea.Sram))
    me.buffer_tensor = lambda *a: sch.Scheduler.buffer_tensor(me, *a)
    ref = _Obj(cost_map={op: _Obj(buffered_weight_tensors=ref_bufs, cascade=1)})
    with core.shims((sch, {"max": core.smax, "min": core.smin}), (tensor, {"max": core.smax, "min": core.smin})):
        prop = sch.Scheduler.propose_schedule_striping(me, Shape4D(1, 8, 8, 16), "T", ref)
        bufs = prop.cost_map[op].buffered_weight_tensors
        sizes = [b.shape[-1] for b in bufs]
    cl = [("one buffer per reference buffer", len(bufs) == nbuf)]
    for i, sz in enumerate(sizes):
        cl.append(("buffer %d holds the new encoding's slices assigned to it" % i, L(sz) == L(new[i])))
        cl.append(("buffer %d reads from the new encoding" % i, bufs[i].src_tensor is wt))
    return cl


def area_required(V, mode):
    """the rows and columns of IFM the scheduler reserves for a stripe under x2 upscaling or none (the REAL get_ifm_area_required -> _required_size),
    independent of what the lowerings generate today: symbolic stripe height/width, kernel 1..8 x 1..8, strides 1..3.  A window of
    n = (v - 1) * stride + kernel upscaled rows touches, whatever its alignment, at most ceil((n + 1) / 2) input rows when every input row is
    repeated (NEAREST), ceil(n / 2) when zeros are inserted (TRANSPOSE), n without upscaling - the reservation must be at least that (it is the
    stripe_input the rolling buffers are sized from) and not more than one row above it."""
    import ethosu.vela.architecture_allocator as aa
    from ethosu.vela.operation import Kernel
    from ethosu.vela.architecture_features import Block
    from ethosu.vela.ethos_u55_regs.ethos_u55_regs import resampling_mode

    bh, bw = V.int("stripe_h", 1, 4096), V.int("stripe_w", 1, 4096)
    kh, kw = V.int("kh", 1, 8), V.int("kw", 1, 8)
    sy, sx = V.int("stride_y", 1, 3), V.int("stride_x", 1, 3)
    rm = {"none": resampling_mode.NONE, "nearest": resampling_mode.NEAREST, "transpose": resampling_mode.TRANSPOSE}[mode]
    with core.shims(*(_shims() + (_aa_shims(),))):
        w1, h1 = aa.get_ifm_area_required(Block(bw, bh, 16), Kernel(kw, kh, sx, sy), rm)
    cl = []
    for name, got, v, st, k in (("rows", h1, bh, sy, kh), ("columns", w1, bw, sx, kw)):
        n = (L(v) - 1) * L(st) + L(k)
        need = {"none": n, "nearest": (n + 2) / 2, "transpose": (n + 1) / 2}[mode]  # ceil((n+1)/2), ceil(n/2)
        cl.append(("%s reserved cover the window's input %s (%s upscaling)" % (name, name, mode), L(got) >= need))
        cl.append(("%s reserved are at most one above it" % name, L(got) <= need + 1))
    # the rational model of the float division records side conditions in a module-level list: they belong to THIS instance and must be consumed
    # here (left behind, they would be attributed to whichever instance the worker process runs next)
    cl += [("float division exact", o) for o in rat.exactness_obligations()]
    return cl


def stripe_input(V):
    """the input volume the scheduler records for a striped operator (SchedulerOperation.create_scheduler_info -> stripe_input, the consumer side of
    rolling_buffer_shape): the rows and columns the stripe's receptive field needs, limited to the IFM's own height and width - height by height,
    width by width.  Symbolic IFM shape, stripe height, requirement; weights and block configuration are stubs."""
    import ethosu.vela.npu_performance  # noqa: F401
    import ethosu.vela.scheduler as sch
    from ethosu.vela.shape4d import Shape4D

    ih, iw = V.int("ifm_h", 1, 4096), V.int("ifm_w", 1, 4096)
    need_h, need_w = V.int("needed_rows", 1, 8192), V.int("needed_cols", 1, 8192)
    sh = V.int("stripe_h", 1, 4096)
    V.assume(L(sh) < L(ih))
    me = _Obj(ifm=_Obj(shape=Shape4D(1, ih, iw, 16)), ifm2=None, ofm=_Obj(shape=Shape4D(1, ih, iw, 16)), uses_scalar=False, parent_op=_Obj(weights=None),
              parent_ps=_Obj(block_config=None), arch=None, kernel=None)
    me._get_stripe_input_requirement = lambda stripe: (need_w, need_h)
    me._get_block_config = lambda *a: _Obj(old_style_representation=lambda: [1, 1, 1, 16])
    with core.shims((sch, {"min": core.smin, "max": core.smax})):
        info = sch.SchedulerOperation.create_scheduler_info(me, None, Shape4D(1, sh, iw, 16))
    si = info.stripe_input
    mn = lambda a, b: z3.If(a < b, a, b)  # noqa: E731
    return [("rows: the requirement limited to the IFM height", L(si.height) == mn(L(need_h), L(ih))),
            ("columns: the requirement limited to the IFM width", L(si.width) == mn(L(need_w), L(iw))),
            ("depth and batch of the IFM", z3.And(L(si.depth) == 16, L(si.batch) == 1))]


def cascadable(V):
    """which operators may be split into stripes inside a cascade: the REAL CascadeBuilder._is_cascadable on a stand-in scheduler operation whose
    kind, padding mode, read offsets, stripe and OFM heights are symbolic.  The per-stripe lemmas above are proved for operators the cascade builder
    lets through and ASSUME what it rules out: a transpose convolution (x2 TRANSPOSE resampling: odd stripe boundaries cannot be expressed by box
    and pads) and a tile-padded depthwise convolution are never cascaded, and an elementwise operator only when elementwise_cascadable agrees."""
    import ethosu.vela.cascade_builder as cb
    from ethosu.vela.operation import Op, Padding

    kinds = {"conv": (Op.Conv2DBias, Op.Conv2DBias), "depthwise": (Op.DepthwiseConv2DBias, Op.DepthwiseConv2DBias), "pool": (Op.MaxPool, Op.MaxPool),
             "add": (Op.Add, Op.Add),
             # the graph optimiser has renamed the operator by the time the scheduler sees it; SchedulerOperation.op_type is parent_op.type
             "transpose_conv": (Op.Conv2DBackpropInputSwitchedBias, Op.Conv2DBackpropInputSwitchedBias)}
    kind = V.choice("kind", sorted(kinds))
    pad = V.choice("padding", [None, Padding.SAME, Padding.VALID, Padding.TILE])
    ro0, ro1 = bool(V.bool("has_read_offset0")), bool(V.bool("has_read_offset1"))
    sh, oh = V.int("stripe_height", 1, 4096), V.int("ofm_height", 1, 4096)
    ew_ok = V.bool("elementwise_cascadable")
    ptype, stype = kinds[kind]
    sop = _Obj(op_type=stype, ofm=_Obj(shape=_Obj(height=oh)), parent_op=_Obj(type=ptype, read_offsets=[object() if ro0 else None, object() if ro1 else None],
                                                                               attrs={} if pad is None else {"padding": pad}))
    me = _Obj(elementwise_cascadable=lambda so: ew_ok)
    got = cb.CascadeBuilder._is_cascadable(me, sop, _Obj(stripe=_Obj(height=sh)))
    if not got:
        return None
    return [("a transpose convolution is never split into cascade stripes", kind != "transpose_conv"),
            ("a tile-padded operator is never split into cascade stripes", pad is not Padding.TILE),
            ("an operator reading a slice (read offsets) is not cascaded", not ro0 and not ro1),
            ("only operators with more than one stripe count as cascaded", L(sh) < L(oh)),
            ("elementwise_cascadable is respected", B(ew_ok))]


def apply_twice(V, first_cascaded):
    """the scheduler applies schedules repeatedly (optimised, minimal, optimised again): the REAL Scheduler.apply_schedule on a real Tensor with two
    symbolic rolling-buffer heights in sequence - after each application the tensor's storage holds exactly the rows of THAT schedule's rolling
    buffer (a buffer left at an earlier, smaller height lets a row be overwritten before its last consumer stripe has read it)."""
    import ethosu.vela.npu_performance  # noqa: F401
    import ethosu.vela.scheduler as sch
    import ethosu.vela.tensor as tensor
    from ethosu.vela.tensor import Tensor, MemArea, TensorFormat
    from ethosu.vela.data_type import DataType
    from ethosu.vela.shape4d import Shape4D
    from harness.c04 import arch_for

    arch = arch_for("Ethos_U55_128")
    H = 64
    h1, h2 = V.int("first_buffer_rows", 1, H), V.int("second_buffer_rows", 1, H)
    t = Tensor([1, H, 8, 20], DataType.int8, "mid")
    t.force_linear_format = False  # check_format_restrictions allowed bricks (a rolling buffer requires them)
    t.set_format(TensorFormat.NHWC, arch)
    sop = _Obj(ifm=_Obj(connection=_Obj(parent_tens=t)), parent_ps=_Obj(block_config=None), name="consumer")
    bc = _Obj(old_style_representation=lambda: [1, 1, 1, 16])

    def schedule(rows, cascaded=True):
        info = _Obj(cascade=1 if cascaded else 0, block_config=bc, buffered_weight_tensors=[], npu_weights_tensor=None)
        casc = {1: _Obj(buffers={sop: Shape4D(1, rows, 8, 32)})} if cascaded else {}
        return _Obj(cost_map={sop: info}, cascades=casc)

    me = _Obj(sched_ops=[sop], arch=arch)
    cl = []
    with core.shims((sch, {"min": core.smin, "max": core.smax}), (tensor, {"min": core.smin, "max": core.smax})):
        sch.Scheduler.apply_schedule(me, schedule(h1, first_cascaded))
        if first_cascaded:
            cl.append(("after the first schedule the buffer holds its rows", L(t.storage_shape[1]) == L(h1)))
        sch.Scheduler.apply_schedule(me, schedule(h2))
    cl += [("after the second schedule the buffer holds the second schedule's rows", L(t.storage_shape[1]) == L(h2)),
           ("in bricks of 16 channels, full width", t.format == TensorFormat.NHCWB16 and int(t.storage_shape[2]) == 8 and int(t.storage_shape[3]) == 32)]
    return cl


def rolling_dims(V, **params):
    """rolling buffers are tall, wide and deep enough: harness/c02.py rolling_dims (the real rolling_buffer_shape on symbolic stripe shapes)"""
    from harness import c02

    return c02.rolling_dims(V, **params)


def kernel_conversion(V, **params):
    """the kernel geometry programmed for a stripe is the kernel the stripe's region and padding were computed for: harness/c04.py
    kernel_conversion (real to_npu_kernel / to_kernel keep every field in place)"""
    from harness import c04

    return c04.kernel_conversion(V, **params)


FUNCS = {"area_required": area_required, "kernel_conversion": kernel_conversion, "stripe_input": stripe_input, "restripe_buffers": restripe_buffers, "apply_twice": apply_twice, "cascadable": cascadable, "rolling_dims": rolling_dims, "tconv_pads": tconv_pads, "stripe_proposals": stripe_proposals, "rows": rows, "cols": cols, "rows_upscaled": rows_upscaled, "area": area, "cascade": cascade}



def instances(tier, seed):
    out = []
    for modes in (("none", "nearest", "none"), ("nearest", "none"), ("none", "nearest"), ("nearest", "nearest", "none"), ("none", "none", "none"),
                  ("transpose", "none")):
        for cascaded in (0, 1):
            out.append(dict(key="stripe_proposals/%s/%s" % ("-".join(modes), "cascade" if cascaded else "separate"), fn="stripe_proposals",
                            params=dict(modes=list(modes), cascaded=cascaded)))
    hmax, kmax = (64, 8) if tier == "quick" else (4096, 16)
    for mode in ("SAME", "VALID", "EXPL"):
        for stride in (1, 2, 3):
            for striped in (False, True):
                out.append(dict(key="rows/%s/s%d/%s" % (mode, stride, "striped" if striped else "full"), fn="rows",
                                params=dict(stride=stride, mode=mode, striped=striped, hmax=hmax, kmax=kmax)))
            out.append(dict(key="cols/%s/s%d" % (mode, stride), fn="cols", params=dict(stride=stride, mode=mode, hmax=hmax, kmax=kmax)))
            # the operator reads a slice of a larger tensor (fused Split / StridedSlice): read offset and extent symbolic
            out.append(dict(key="cols/%s/s%d/split" % (mode, stride), fn="cols", params=dict(stride=stride, mode=mode, hmax=hmax, kmax=kmax, split=1)))
            for striped in (False, True):
                out.append(dict(key="rows/%s/s%d/%s/split" % (mode, stride, "striped" if striped else "full"), fn="rows",
                                params=dict(stride=stride, mode=mode, striped=striped, hmax=hmax, kmax=kmax, split=1)))
    out.append(dict(key="rolling_dims", fn="rolling_dims", params={}))
    out.append(dict(key="kernel_conversion", fn="kernel_conversion", params={}))
    out.append(dict(key="cascadable", fn="cascadable", params={}))
    out.append(dict(key="stripe_input", fn="stripe_input", params={}))
    for m in ("none", "nearest", "transpose"):
        out.append(dict(key="area_required/%s" % m, fn="area_required", params=dict(mode=m)))
    for nb in (1, 2):
        out.append(dict(key="restripe_buffers/%d" % nb, fn="restripe_buffers", params=dict(nbuf=nb)))
    for fc in (0, 1):
        out.append(dict(key="apply_twice/%s" % ("cascaded_first" if fc else "plain_first"), fn="apply_twice", params=dict(first_cascaded=fc)))
    for sx, sy in ((1, 1), (2, 2), (2, 1)):
        for padding in ("SAME", "VALID"):
            out.append(dict(key="tconv_pads/%dx%d/%s" % (sx, sy, padding), fn="tconv_pads", params=dict(sx=sx, sy=sy, padding=padding)))
    for kind in ("bilinear", "bilinear_ac", "transpose_same", "transpose_valid"):
        for striped in (False, True):
            if striped and kind.startswith("transpose"):
                continue  # Conv2DBackpropInputSwitchedBias is never cascaded (cascade_builder._is_cascadable) and un-cascaded ops run as one stripe
            out.append(dict(key="rows_upscaled/%s/%s" % (kind, "striped" if striped else "full"), fn="rows_upscaled",
                            params=dict(kind=kind, striped=striped, hmax=hmax, kmax=min(kmax, 8))))
    for stride in (1, 2, 3):
        for dil in (1, 2):
            for mode in ("SAME", "VALID"):
                out.append(dict(key="area/%s/s%d/d%d" % (mode, stride, dil), fn="area", params=dict(stride=stride, dil=dil, mode=mode, nearest=False, hmax=hmax)))
    for mode in ("EXPL", "VALID"):
        out.append(dict(key="area/nearest/%s" % mode, fn="area", params=dict(stride=1, dil=1, mode=mode, nearest=True, hmax=hmax)))
    pcs = [(1, 1), (2, 1), (1, 2), (3, 2), (2, 3), (4, 2), (5, 2), (5, 1)] if tier == "quick" else [(p, c) for p in range(1, 7) for c in range(1, 5)]
    for P, C in pcs:
        for stride in (1, 2, 3):
            if 10 * P < C * stride + 1:
                continue  # bounds H <= 10*P and OH > C would be contradictory
            for mode in ("SAME", "VALID"):
                out.append(dict(key="cascade/P%d_C%d/s%d/%s" % (P, C, stride, mode), fn="cascade",
                                params=dict(P=P, C=C, stride=stride, mode=mode, kmax=5 if tier == "quick" else 7, hmax=40), weight=50))
                if stride == 1 and (tier != "quick" or (P, C) in ((2, 1), (3, 2))):
                    # height dilation 2 with width dilation 1: the generator must use the HEIGHT dilation for the dilated kernel height
                    out.append(dict(key="cascade/P%d_C%d/s%d/%s/dil2" % (P, C, stride, mode), fn="cascade",
                                    params=dict(P=P, C=C, stride=stride, mode=mode, kmax=3, hmax=40, dy=2), weight=50))
    return out
