#!/bin/sh
# runs the quick check of the owning property (or the one named in meta.json "check") against every seeded change; prints a table
cd /verif
for d in seeded/*/; do
  s=$(basename $d); p=${s%_*}
  alt=$(python3 -c "import json;print(json.load(open('$d/meta.json')).get('check','$p'))")
  out=$(TRY_LINES=1 tools/try_patch.sh /verif/$d/patch.diff $alt 2>&1 | grep -E "exit=" | tail -1)
  echo "$s $alt $out"
done
git -C /repo status --short
