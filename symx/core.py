"""symx - dynamic symbolic execution of the repository's own Python functions over z3 proxies.

The harness imports a module from /repo (live working tree), builds proxy arguments and calls the
real function.  The only place a path forks is SBool.__bool__ (DART-style re-execution: a run follows a
decision prefix; at a fresh decision both branches are checked for feasibility under the path condition).
A harness *holds* only if the work-list drains, every path's  pc /\\ not post  is unsat and no query
returned unknown.

The same harness body runs in two modes through the value provider `V`:
  * symbolic  (V.int(...) -> SInt, shims installed)            -> the solver decides
  * concrete  (V.int(...) -> int from a model, NO shims)        -> replay of a counterexample on the
                                                                   unpatched code, oracle evaluated concretely
"""
import builtins
import contextlib
import time

import z3

RLIMIT = 40_000_000  # per-query resource limit (deterministic, not wall clock)


class PathAbort(BaseException):
    """ends the current path without a verdict (e.g. an assumption turned out false on this path)"""


class Infeasible(BaseException):
    pass


class Inconclusive(BaseException):
    """solver said unknown / budget exhausted / something could not be modelled -> never 'held'"""


class Unmodelled(Inconclusive):
    pass


class EngineError(BaseException):
    """non-deterministic re-execution or other internal inconsistency (exit 3)"""


class Ctx:
    fresh = False  # float-heavy harnesses: every query is decided by a fresh (non-incremental, tactic-based) solver

    def __init__(self, prefix, stats):
        self.solver = z3.Solver()
        self.solver.set("rlimit", RLIMIT)
        self.prefix = prefix  # list of (decision, cond_hash)
        self.taken = []
        self.pc = []
        self.worklist = []
        self.stats = stats
        self.assumed_any = False
        self.bounds = {}  # declared ranges of symbolic ints (used by the bit-hull inference)

    def _check(self, *extra):
        self.stats["queries"] += 1
        t0 = time.time()
        if self.fresh:
            s2 = z3.Solver()
            s2.set("rlimit", RLIMIT)
            s2.add(self.solver.assertions())
            s2.add(*extra)
            r = s2.check()
        else:
            self.solver.push()
            self.solver.add(*extra)
            r = self.solver.check()
            self.solver.pop()
        self.stats["solver_s"] += time.time() - t0
        k = str(r)
        self.stats[k] = self.stats.get(k, 0) + 1
        if k == "unknown":
            raise Inconclusive("solver returned unknown on a feasibility query: %s" % self.solver.reason_unknown())
        return k == "sat"

    def assume(self, cond):
        cond = z3.simplify(cond)
        if z3.is_true(cond):
            return
        if z3.is_false(cond):
            raise Infeasible()
        self.pc.append(cond)
        self.solver.add(cond)
        # feasibility is checked lazily by the next decision or by the final query; but an infeasible
        # assumption must not let a path "reach" the postcondition, so check here.
        if not self._check():
            raise Infeasible()

    def decide(self, cond):
        cond = z3.simplify(cond)
        if z3.is_true(cond):
            return True
        if z3.is_false(cond):
            return False
        i = len(self.taken)
        h = cond.hash()
        if i < len(self.prefix):
            d, ph = self.prefix[i]
            if ph != h:
                raise EngineError("non-deterministic re-execution at decision %d" % i)
        else:
            t = self._check(cond)
            if not t:
                d = False
            else:
                f = self._check(z3.Not(cond))
                if f:
                    self.worklist.append(self.taken + [(False, h)])
                d = True
        self.taken.append((d, h))
        c = cond if d else z3.Not(cond)
        self.pc.append(c)
        self.solver.add(c)
        return d


CTX = None  # current symbolic context (None in concrete mode)


# ------------------------------------------------------------------------------------------------ proxies


def _is_intlike(x):
    return isinstance(x, int) or (hasattr(x, "__index__") and not isinstance(x, (SInt, SBool)))


def lift(x):
    """python/proxy integer -> z3 Int term (None if not integer-like)"""
    if isinstance(x, SInt):
        return x.e
    if isinstance(x, SBool):
        return z3.If(x.e, z3.IntVal(1), z3.IntVal(0))
    if isinstance(x, bool):
        return z3.IntVal(int(x))
    if isinstance(x, int):
        return z3.IntVal(x)
    if hasattr(x, "__sym_int__"):
        return x.__sym_int__()
    if hasattr(x, "__index__"):
        return z3.IntVal(int(x))
    if isinstance(x, float) and x == int(x):
        return z3.IntVal(int(x))
    return None


def L(x):
    r = lift(x)
    if r is None:
        if z3.is_expr(x):
            return x
        raise Unmodelled("cannot lift %r" % (x,))
    return r


def B(x):
    """bool/SBool/z3 Bool -> z3 Bool"""
    if isinstance(x, SBool):
        return x.e
    if z3.is_expr(x):
        return x
    return z3.BoolVal(bool(x))


class SBool:
    __slots__ = ("e",)

    def __init__(self, e):
        self.e = e

    def __bool__(self):
        if CTX is None:
            s = z3.simplify(self.e)
            if z3.is_true(s):
                return True
            if z3.is_false(s):
                return False
            raise EngineError("symbolic bool outside a context")
        return CTX.decide(self.e)

    def __and__(self, o):
        return SBool(z3.And(self.e, B(o)))

    __rand__ = __and__

    def __or__(self, o):
        return SBool(z3.Or(self.e, B(o)))

    __ror__ = __or__

    def __invert__(self):
        return SBool(z3.Not(self.e))

    def __eq__(self, o):
        return SBool(self.e == B(o))

    def __ne__(self, o):
        return SBool(self.e != B(o))

    def __hash__(self):
        return 0

    def __int__(self):
        return 1 if bool(self) else 0

    def __repr__(self):
        return "SBool(%s)" % self.e


def pyfloordiv(a, b):
    """Python floor division on z3 Ints (z3 `/` on Int is Euclidean: remainder >= 0)."""
    if z3.is_int_value(b):
        bv = b.as_long()
        if bv > 0:
            return a / b
        if bv < 0:
            return (-a) / (-b)
        raise ZeroDivisionError
    return z3.If(b > 0, a / b, (-a) / (-b))


def pymod(a, b):
    return a - b * pyfloordiv(a, b)


_BVW = 80  # width used for general bitwise operators on python ints


def _is_mask(m):
    return m >= 0 and (m & (m + 1)) == 0


def _const_bits(c):
    """bit hull [lo, hi) of a non-negative python int constant (None if negative)"""
    if c < 0:
        return None
    if c == 0:
        return (0, 0)
    lo = (c & -c).bit_length() - 1
    return (lo, c.bit_length())


def _bits_of(x):
    if isinstance(x, SInt):
        return x.bits
    if isinstance(x, bool):
        return (0, 1)
    if isinstance(x, int):
        return _const_bits(x)
    return None


def _runs(c):
    """decompose a non-negative constant into runs of consecutive one bits: [(shift, width), ...]"""
    out = []
    i = 0
    while c >> i:
        if (c >> i) & 1:
            j = i
            while (c >> j) & 1:
                j += 1
            out.append((i, j - i))
            i = j
        else:
            i += 1
    return out


def _tz(c):
    """number of trailing zero bits of a python int (64 for zero: 'divisible by anything we ask about')"""
    return 64 if c == 0 else (c & -c).bit_length() - 1


def _absint(e, bounds, memo):
    """tiny abstract interpreter over z3 Int terms: returns (lo, hi, tz) with lo <= e <= hi (None = unbounded) and 2^tz | e.
    Variable ranges come from the declared ranges of the path's symbolic inputs (they are assumptions of the path condition)."""
    k = e.get_id()
    if k in memo:
        return memo[k]
    r = (None, None, 0)
    if z3.is_int_value(e):
        v = e.as_long()
        r = (v, v, _tz(v))
    elif z3.is_const(e) and e.decl().kind() == z3.Z3_OP_UNINTERPRETED:
        lo, hi = bounds.get(e.decl().name(), (None, None))
        r = (lo, hi, 0)
    elif z3.is_app(e):
        kind = e.decl().kind()
        ch = [_absint(c, bounds, memo) for c in e.children()] if kind in (z3.Z3_OP_ADD, z3.Z3_OP_SUB, z3.Z3_OP_MUL, z3.Z3_OP_IDIV, z3.Z3_OP_MOD,
                                                                          z3.Z3_OP_UMINUS) else None
        if kind == z3.Z3_OP_ADD:
            lo = None if any(c[0] is None for c in ch) else sum(c[0] for c in ch)
            hi = None if any(c[1] is None for c in ch) else sum(c[1] for c in ch)
            r = (lo, hi, min(c[2] for c in ch))
        elif kind == z3.Z3_OP_SUB and len(ch) == 2:
            (al, ah, at), (bl, bh, bt) = ch
            r = (None if al is None or bh is None else al - bh, None if ah is None or bl is None else ah - bl, min(at, bt))
        elif kind == z3.Z3_OP_UMINUS:
            (al, ah, at), = ch
            r = (None if ah is None else -ah, None if al is None else -al, at)
        elif kind == z3.Z3_OP_MUL:
            lo, hi, t = 1, 1, 0
            for cl, chh, ct in ch:
                t += ct
                if lo is None or cl is None or chh is None:
                    lo = hi = None
                else:
                    prods = [lo * cl, lo * chh, hi * cl, hi * chh]
                    lo, hi = min(prods), max(prods)
            r = (lo, hi, min(t, 64))
        elif kind == z3.Z3_OP_IDIV and len(ch) == 2 and ch[1][0] is not None and ch[1][0] == ch[1][1] and ch[1][0] > 0:
            d = ch[1][0]
            al, ah, at = ch[0]
            t = at - _tz(d) if (d & (d - 1)) == 0 and at >= _tz(d) else 0
            r = (None if al is None else al // d, None if ah is None else ah // d, t)
        elif kind == z3.Z3_OP_MOD and len(ch) == 2 and ch[1][0] is not None and ch[1][0] == ch[1][1] and ch[1][0] > 0:
            d = ch[1][0]
            al, ah, at = ch[0]
            if al is not None and ah is not None and al >= 0 and ah < d:
                r = (al, ah, at)
            else:
                r = (0, d - 1, min(at, _tz(d)))
        elif kind == z3.Z3_OP_ITE:
            x, y = _absint(e.arg(1), bounds, memo), _absint(e.arg(2), bounds, memo)
            r = (None if x[0] is None or y[0] is None else min(x[0], y[0]), None if x[1] is None or y[1] is None else max(x[1], y[1]), min(x[2], y[2]))
    memo[k] = r
    return r


def _infer_bits(e):
    """bit hull [lo, hi) of an integer term from the declared input ranges (None if not provably non-negative and bounded)"""
    ctx = CTX
    if ctx is None:
        return None
    lo, hi, t = _absint(e, ctx.bounds, {})
    if lo is None or hi is None or lo < 0:
        return None
    if hi == 0:
        return (0, 0)
    return (min(t, hi.bit_length() - 1), hi.bit_length())


class SInt:
    """symbolic Python int (mathematical integer).  `bits` = optional hull [lo, hi): the value is non-negative and only
    bits lo..hi-1 can be set (established by masking/shifting); lets `|` of disjoint fields be plain addition."""

    __slots__ = ("e", "bits", "bv")

    def __init__(self, e, bits=None):
        self.e = e
        self.bits = bits
        self.bv = None  # optional: the bit-vector term this integer was derived from (float -> int conversions)

    # -- arithmetic
    def _b(self, o, f):
        if hasattr(o, "__sym_int__"):
            return NotImplemented  # NumPy scalar proxy: NEP 50 - the NumPy operand decides the result type
        l = lift(o)
        if l is None:
            return NotImplemented
        return SInt(f(self.e, l))

    def _rb(self, o, f):
        if hasattr(o, "__sym_int__"):
            return NotImplemented
        l = lift(o)
        if l is None:
            return NotImplemented
        return SInt(f(l, self.e))

    def __add__(s, o):
        return s._b(o, lambda a, b: a + b)

    def __radd__(s, o):
        return s._rb(o, lambda a, b: a + b)

    def __sub__(s, o):
        return s._b(o, lambda a, b: a - b)

    def __rsub__(s, o):
        return s._rb(o, lambda a, b: a - b)

    def __mul__(s, o):
        return s._b(o, lambda a, b: a * b)

    def __rmul__(s, o):
        return s._rb(o, lambda a, b: a * b)

    def _divguard(s, d):
        z = SBool(L(d) == 0)
        if z:
            raise ZeroDivisionError("integer division or modulo by zero")

    def __floordiv__(s, o):
        if lift(o) is None:
            return NotImplemented
        s._divguard(o)
        return s._b(o, pyfloordiv)

    def __rfloordiv__(s, o):
        if lift(o) is None:
            return NotImplemented
        s._divguard(s)
        return s._rb(o, pyfloordiv)

    def __mod__(s, o):
        if lift(o) is None:
            return NotImplemented
        s._divguard(o)
        return s._b(o, pymod)

    def __rmod__(s, o):
        if lift(o) is None:
            return NotImplemented
        s._divguard(s)
        return s._rb(o, pymod)

    def __divmod__(s, o):
        return (s // o, s % o)

    def __truediv__(s, o):
        from . import rat

        return rat.truediv(s, o)

    def __rtruediv__(s, o):
        from . import rat

        return rat.truediv(o, s)

    def __neg__(s):
        return SInt(-s.e)

    def __pos__(s):
        return s

    def __abs__(s):
        return SInt(z3.If(s.e < 0, -s.e, s.e))

    def __pow__(s, o):
        if isinstance(o, int) and 0 <= o <= 4:
            r = SInt(z3.IntVal(1))
            for _ in range(o):
                r = r * s
            return r
        raise Unmodelled("SInt ** %r" % (o,))

    def __rpow__(s, o):
        raise Unmodelled("%r ** SInt" % (o,))

    # -- comparisons
    def _c(self, o, f):
        if hasattr(o, "__sym_int__"):
            return NotImplemented
        l = lift(o)
        if l is None:
            from . import rat

            if isinstance(o, rat.SRat):
                return NotImplemented
            if isinstance(o, float):
                return rat.cmp_float(self, o, f)
            return NotImplemented
        return SBool(f(self.e, l))

    def __lt__(s, o):
        return s._c(o, lambda a, b: a < b)

    def __le__(s, o):
        return s._c(o, lambda a, b: a <= b)

    def __gt__(s, o):
        return s._c(o, lambda a, b: a > b)

    def __ge__(s, o):
        return s._c(o, lambda a, b: a >= b)

    def __eq__(s, o):
        r = s._c(o, lambda a, b: a == b)
        if r is NotImplemented:
            if o is None or isinstance(o, (str, tuple, list)):
                return False
        return r

    def __ne__(s, o):
        r = s._c(o, lambda a, b: a != b)
        if r is NotImplemented:
            if o is None or isinstance(o, (str, tuple, list)):
                return True
        return r

    def __hash__(s):
        return 0  # all proxies collide; dict/set lookups then decide equality through __eq__ (forks)

    def __bool__(s):
        return bool(SBool(s.e != 0))

    # -- bit operations
    def __lshift__(s, k):
        if hasattr(k, "__sym_int__"):
            return NotImplemented
        if isinstance(k, SInt):
            k = k.concrete_or_none()
        if not isinstance(k, int):
            raise Unmodelled("shift by symbolic amount")
        return SInt(s.e * (1 << k), None if s.bits is None else (s.bits[0] + k, s.bits[1] + k))

    def __rlshift__(s, o):
        # o << s : enumerate (forks) over a small range
        k = s.small_value(0, 64)
        return o << k

    def __rshift__(s, k):
        if hasattr(k, "__sym_int__"):
            return NotImplemented
        if isinstance(k, SInt):
            k = k.concrete_or_none()
        if not isinstance(k, int):
            raise Unmodelled("shift by symbolic amount")
        return SInt(pyfloordiv(s.e, z3.IntVal(1 << k)),
                    None if s.bits is None else (max(s.bits[0] - k, 0), max(s.bits[1] - k, 0)))

    def __rrshift__(s, o):
        k = s.small_value(0, 64)
        return o >> k

    def _bv(s, o, f):
        if hasattr(o, "__sym_int__"):
            return NotImplemented
        l = lift(o)
        if l is None:
            return NotImplemented
        a = z3.Int2BV(s.e, _BVW)
        b = z3.Int2BV(l, _BVW)
        # exact for operands in [-2^(W-1), 2^(W-1)); harnesses keep values far below
        return SInt(z3.BV2Int(f(a, b), True))

    def __and__(s, o):
        if isinstance(o, int) and not isinstance(o, bool) and o >= 0:
            # exact arithmetic form for any non-negative constant: sum over its runs of one-bits
            r = z3.IntVal(0)
            for sh, w in _runs(o):
                r = r + pymod(pyfloordiv(s.e, z3.IntVal(1 << sh)), z3.IntVal(1 << w)) * (1 << sh)
            return SInt(r, _const_bits(o))
        return s._bv(o, lambda a, b: a & b)

    __rand__ = __and__

    def __or__(s, o):
        if hasattr(o, "__sym_int__"):
            return NotImplemented
        bs, bo = s.bits, _bits_of(o)
        if bs is None:
            bs = s.bits = _infer_bits(s.e)
        if bo is None and isinstance(o, SInt):
            bo = o.bits = _infer_bits(o.e)
        if bs is not None and bo is not None and (bs[1] <= bo[0] or bo[1] <= bs[0] or bs[0] == bs[1] or bo[0] == bo[1]):
            l = lift(o)
            lo = min(b[0] for b in (bs, bo) if b[0] != b[1]) if (bs[0] != bs[1] or bo[0] != bo[1]) else 0
            hi = max(bs[1], bo[1])
            return SInt(s.e + l, (lo, hi))  # disjoint bit fields: OR == ADD
        if isinstance(o, int) and not isinstance(o, bool) and o >= 0:
            return s + o - (s & o)
        return s._bv(o, lambda a, b: a | b)

    __ror__ = __or__

    def __xor__(s, o):
        return s._bv(o, lambda a, b: a ^ b)

    __rxor__ = __xor__

    def __invert__(s):
        return SInt(-s.e - 1)

    # -- realisation
    def concrete_or_none(s):
        v = z3.simplify(s.e)
        if z3.is_int_value(v):
            return v.as_long()
        return None

    def small_value(s, lo, hi):
        """realise by forking over [lo, hi] (used where the code needs a concrete small int)"""
        v = s.concrete_or_none()
        if v is not None:
            return v
        for k in range(lo, hi + 1):
            if SBool(s.e == k):
                return k
        raise Unmodelled("value outside [%d,%d] needs realisation" % (lo, hi))

    def __index__(s):
        v = s.concrete_or_none()
        if v is not None:
            return v
        raise Unmodelled("symbolic int used as an index / realised by C code: %s" % s)

    def __int__(s):
        v = s.concrete_or_none()
        if v is not None:
            return v
        raise Unmodelled("int() on a symbolic value (install the sint shim in the module): %s" % s)

    def __float__(s):
        v = s.concrete_or_none()
        if v is not None:
            return float(v)
        raise Unmodelled("float() on a symbolic int")

    def __round__(s, n=None):
        return s

    def __floor__(s):
        return s

    def __ceil__(s):
        return s

    def __trunc__(s):
        return s

    def bit_length(s):
        raise Unmodelled("bit_length on symbolic int")

    def __repr__(s):
        return "SInt(%s)" % s.e

    def __format__(s, spec):
        return "<sym>"


def is_sym(x):
    return isinstance(x, (SInt, SBool)) or hasattr(x, "__sym__")


# ------------------------------------------------------------------------------------------------ shims


def sint(x=0, *a):
    """replacement for builtin int() inside modules under test"""
    if isinstance(x, SInt):
        return x
    if isinstance(x, SBool):
        return SInt(lift(x))
    if hasattr(x, "__sym_toint__"):
        return x.__sym_toint__()
    return builtins.int(x, *a)


class _IntMeta(type):
    def __instancecheck__(cls, obj):
        return isinstance(obj, builtins.int)

    def __subclasscheck__(cls, sub):
        return issubclass(sub, builtins.int)


class IntShim(builtins.int, metaclass=_IntMeta):
    """replacement for the name `int` inside modules under test: int(x) is the identity on proxies, while isinstance(x, int),
    issubclass and numpy dtype arguments keep working"""

    def __new__(cls, x=0, *a):
        return sint(x, *a)


def sbool(x=False):
    if isinstance(x, SBool):
        return x
    if isinstance(x, SInt):
        return SBool(x.e != 0)
    return builtins.bool(x)


def _minmax(args, key, default, pick_first_if):
    if len(args) == 1:
        args = tuple(args[0])
    if key is not None:
        raise Unmodelled("min/max with key on proxies")
    if not args:
        if default is not _NODEF:
            return default
        raise ValueError("min()/max() arg is an empty sequence")
    r = args[0]
    for x in args[1:]:
        if isinstance(r, (SInt,)) or isinstance(x, (SInt,)):
            lr, lx = L(r), L(x)
            r = SInt(z3.If(pick_first_if(lx, lr), lx, lr))
        elif hasattr(r, "__sym__") or hasattr(x, "__sym__"):
            r = x if bool(pick_first_if(x, r)) else r
        else:
            r = x if pick_first_if(x, r) else r
    return r


_NODEF = object()


def _mat(a):
    if len(a) == 1 and not isinstance(a[0], (list, tuple)):
        return (list(a[0]),)
    return a


def smin(*a, key=None, default=_NODEF):
    a = _mat(a)
    if not any(_has_sym(x) for x in a):
        kw = {}
        if key is not None:
            kw["key"] = key
        if default is not _NODEF:
            kw["default"] = default
        return builtins.min(*a, **kw)
    return _minmax(a, key, default, lambda x, r: x < r)


def smax(*a, key=None, default=_NODEF):
    a = _mat(a)
    if not any(_has_sym(x) for x in a):
        kw = {}
        if key is not None:
            kw["key"] = key
        if default is not _NODEF:
            kw["default"] = default
        return builtins.max(*a, **kw)
    return _minmax(a, key, default, lambda x, r: x > r)


def _has_sym(x):
    if is_sym(x):
        return True
    if isinstance(x, (list, tuple)):
        return any(is_sym(y) for y in x)
    try:
        import numpy as np

        if isinstance(x, np.ndarray) and x.dtype == object:
            return any(is_sym(y) for y in x.flat)
    except Exception:
        pass
    if hasattr(x, "__iter__") and not isinstance(x, (str, bytes, dict)):
        try:
            return any(is_sym(y) for y in list(x))
        except Exception:
            return False
    return False


def sabs(x):
    return abs(x)


def ssum(it, start=0):
    r = start
    for x in it:
        r = r + x
    return r


def ite(c, a, b):
    """if-then-else without forking when both arms are integer-like"""
    c = B(c)
    c = z3.simplify(c)
    if z3.is_true(c):
        return a
    if z3.is_false(c):
        return b
    return SInt(z3.If(c, L(a), L(b)))


@contextlib.contextmanager
def shims(*pairs):
    """shims((module, {'min': smin, ...}), ...): inject names into module globals, restore afterwards.
    In concrete (replay) mode nothing is injected: the unpatched code runs."""
    saved = []
    try:
        if CTX is not None:
            for mod, names in pairs:
                for k, v in names.items():
                    saved.append((mod, k, mod.__dict__.get(k, _NODEF)))
                    mod.__dict__[k] = v
        yield
    finally:
        for mod, k, old in reversed(saved):
            if old is _NODEF:
                mod.__dict__.pop(k, None)
            else:
                mod.__dict__[k] = old


BASIC = {"min": smin, "max": smax, "int": IntShim, "abs": sabs, "sum": ssum}


# ------------------------------------------------------------------------------------------------ providers


class SymV:
    """value provider in symbolic mode"""

    symbolic = True

    def __init__(self):
        self.decls = {}

    def int(self, name, lo=None, hi=None):
        v = z3.Int(name)
        self.decls[name] = ("int", lo, hi)
        CTX.bounds[name] = (lo, hi)
        if lo is not None:
            CTX.assume(v >= lo)
        if hi is not None:
            CTX.assume(v <= hi)
        return SInt(v)

    def bool(self, name):
        self.decls[name] = ("bool",)
        return SBool(z3.Bool(name))

    def choice(self, name, options):
        """symbolic choice among concrete python objects (forks)"""
        i = self.int(name, 0, len(options) - 1)
        return options[i.small_value(0, len(options) - 1)]

    def assume(self, c):
        CTX.assume(B(c))

    def extra(self, kind, name, *a):
        """hook for other proxy kinds (np ints, floats); registered by their modules"""
        return _EXTRA[kind][0](self, name, *a)


class ConcV:
    """value provider in concrete replay mode: values come from a solver model"""

    symbolic = False

    def __init__(self, values):
        self.values = values
        self.assumption_failed = None

    def int(self, name, lo=None, hi=None):
        v = int(self.values.get(name, lo if lo is not None else 0))
        if lo is not None and v < lo or hi is not None and v > hi:
            raise PathAbort("replay value for %s outside its declared range" % name)
        return v

    def bool(self, name):
        return bool(self.values.get(name, False))

    def choice(self, name, options):
        return options[self.int(name, 0, len(options) - 1)]

    def assume(self, c):
        s = z3.simplify(B(c))
        if z3.is_false(s):
            raise PathAbort("replay values violate an assumption")
        if not z3.is_true(s):
            raise EngineError("assumption not ground in replay")

    def extra(self, kind, name, *a):
        return _EXTRA[kind][1](self, name, *a)


_EXTRA = {}


def register_kind(kind, sym_ctor, conc_ctor):
    _EXTRA[kind] = (sym_ctor, conc_ctor)


# ------------------------------------------------------------------------------------------------ exploration


def model_values(model, decls_hint=None):
    vals = {}
    for d in model.decls():
        v = model[d]
        n = d.name()
        try:
            if z3.is_int_value(v):
                vals[n] = v.as_long()
            elif z3.is_true(v) or z3.is_false(v):
                vals[n] = bool(z3.is_true(v))
            elif z3.is_bv_value(v):
                vals[n] = {"bv": v.as_long(), "bits": v.size()}
            elif z3.is_fp_value(v) or z3.is_fp(v):
                bvv = model.eval(z3.fpToIEEEBV(v), model_completion=True)
                vals[n] = {"fpbits": bvv.as_long(), "ebits": v.ebits(), "sbits": v.sbits()}
            else:
                vals[n] = str(v)
        except Exception:
            vals[n] = str(v)
    return vals


def normalise_post(post):
    """post: bool | SBool | z3 Bool | list of (name, bool-like) -> list of (name, z3 Bool)"""
    if post is None:
        return None
    if isinstance(post, (list, tuple)):
        out = []
        for i, item in enumerate(post):
            if isinstance(item, tuple) and len(item) == 2 and isinstance(item[0], str):
                out.append((item[0], B(item[1])))
            else:
                out.append(("claim%d" % i, B(item)))
        return out
    return [("post", B(post))]


def _cvc5_check(smt2, tlimit_ms=3000):
    """second opinion on one query: 'sat' / 'unsat' / 'unknown' from cvc5 (python wheel) on the SMT-LIB text z3 prints"""
    try:
        import cvc5
    except Exception:  # noqa
        return "unavailable"
    try:
        slv = cvc5.Solver()
        slv.setOption("tlimit-per", str(tlimit_ms))
        par = cvc5.InputParser(slv)
        par.setStringInput(cvc5.InputLanguage.SMT_LIB_2_6, "(set-logic ALL)\n" + smt2, "query")
        sm = par.getSymbolManager()
        res = "unknown"
        while True:
            c = par.nextCommand()
            if c.isNull():
                break
            o = c.invoke(slv, sm)
            if c.getCommandName() == "check-sat":
                res = str(o).strip()
        return res if res in ("sat", "unsat") else "unknown"
    except Exception as e:  # noqa
        return "unknown"


def explore(fn, max_paths=200000, wall_cap=None, want_witness=True, crosscheck=0, fresh_final=False):
    """fn(V) runs real code on proxies and returns the postcondition (see normalise_post) or None (path not
    subject to the claim).  Returns a dict: result in {holds, cex, inconclusive}; paths; reached; stats."""
    global CTX
    stats = {"queries": 0, "solver_s": 0.0}
    work = [[]]
    paths = reached = 0
    witness = None
    t0 = time.time()
    claims_seen = set()
    decls = {}
    try:
        while work:
            prefix = work.pop()
            ctx = Ctx(prefix, stats)
            ctx.fresh = bool(fresh_final)
            CTX = ctx
            V = SymV()
            try:
                post = fn(V)
            except Infeasible:
                CTX = None
                work.extend(ctx.worklist)  # alternatives queued before the path died must still be explored
                continue
            except PathAbort:
                post = None
            finally:
                CTX = None
            decls.update(V.decls)
            paths += 1
            work.extend(ctx.worklist)
            claims = normalise_post(post)
            fresh_model = None
            if claims is not None:
                reached += 1
                for n, _ in claims:
                    claims_seen.add(n)
                s = ctx.solver
                stats["queries"] += 1
                tq = time.time()
                s.push()
                s.add(z3.Not(z3.And(*[c for _, c in claims])) if claims else z3.BoolVal(False))
                r = str(s.check()) if not fresh_final else "unknown"
                if r == "unknown":
                    # the incremental core has no preprocessing (no bit-blasting tactics for FP/BV): decide the same assertions once more with a
                    # fresh, non-incremental solver, which picks the theory tactic (what a one-shot z3 run on the query would do)
                    s2 = z3.Solver()
                    s2.set("rlimit", RLIMIT * 4)
                    s2.add(s.assertions())
                    r = str(s2.check())
                    stats["fresh_solver_queries"] = stats.get("fresh_solver_queries", 0) + 1
                    if r == "sat":
                        fresh_model = s2.model()
                stats["solver_s"] += time.time() - tq
                stats[r] = stats.get(r, 0) + 1
                if crosscheck > 0 and r in ("sat", "unsat"):
                    # the same query (path condition and negated claims), as printed by z3, decided again by cvc5
                    crosscheck -= 1
                    r2 = _cvc5_check(s.to_smt2())
                    k2 = "cvc5_" + ("agree" if r2 == r else r2 if r2 in ("unknown", "unavailable") else "disagree")
                    stats[k2] = stats.get(k2, 0) + 1
                    if k2 == "cvc5_disagree":
                        s.pop()
                        return dict(result="error", why="z3 answered %s, cvc5 answered %s on the final query of path %d" % (r, r2, paths), paths=paths,
                                    reached=reached, stats=stats, wall_s=time.time() - t0)
                if r == "sat":
                    m = fresh_model if fresh_model is not None else s.model()
                    failed = [n for n, c in claims if z3.is_false(m.eval(c, model_completion=True))]
                    vals = model_values(m)
                    s.pop()
                    return dict(result="cex", values=vals, failed=failed, paths=paths, reached=reached, stats=stats,
                                decls=decls, wall_s=time.time() - t0, claims=sorted(claims_seen))
                if r != "unsat":
                    reason = s.reason_unknown()
                    s.pop()
                    # the solver could neither prove nor refute: look for a concrete witness of a violation (a "sat" answer only needs one,
                    # and it is replayed like any solver model); without one the instance stays inconclusive - never "held"
                    w = _witness_search(fn, dict(decls, **V.decls))
                    if w is not None:
                        return dict(result="cex", values=w[0], failed=w[1], paths=paths, reached=reached, stats=stats, decls=decls,
                                    wall_s=time.time() - t0, claims=sorted(claims_seen), found_by="concrete witness search after solver unknown")
                    return dict(result="inconclusive", why="final query unknown: %s" % reason, paths=paths,
                                reached=reached, stats=stats, wall_s=time.time() - t0)
                s.pop()
                if want_witness and witness is None:
                    # vacuity twin: the path condition that reaches the assertion is satisfiable; keep the model
                    stats["queries"] += 1
                    if str(s.check()) == "sat":
                        witness = model_values(s.model())
            if paths >= max_paths:
                return dict(result="inconclusive", why="path limit %d" % max_paths, paths=paths, reached=reached,
                            stats=stats, wall_s=time.time() - t0)
            if wall_cap is not None and time.time() - t0 > wall_cap:
                return dict(result="inconclusive", why="wall cap %ss" % wall_cap, paths=paths, reached=reached,
                            stats=stats, wall_s=time.time() - t0)
    except Inconclusive as e:
        CTX = None
        return dict(result="inconclusive", why="%s: %s" % (type(e).__name__, e), paths=paths, reached=reached,
                    stats=stats, wall_s=time.time() - t0)
    if reached == 0:
        return dict(result="inconclusive", why="vacuous: no path reached the assertion", paths=paths, reached=0,
                    stats=stats, wall_s=time.time() - t0)
    return dict(result="holds", paths=paths, reached=reached, stats=stats, witness=witness, decls=decls,
                wall_s=time.time() - t0, claims=sorted(claims_seen))


def _witness_search(fn, decls, tries=120):
    """deterministic pseudo-random concrete assignments over the declared variables; returns (values, failed claims) of the first one
    that satisfies the assumptions and violates a claim on the real (unshimmed) code"""
    import random
    import struct

    rnd = random.Random(12345)

    def pick(d):
        kind = d[0]
        if kind == "int":
            lo = d[1] if d[1] is not None else -(1 << 20)
            hi = d[2] if d[2] is not None else (1 << 20)
            return rnd.choice([lo, hi, (lo + hi) // 2, rnd.randint(lo, hi), rnd.randint(lo, min(hi, lo + 16))])
        if kind == "bool":
            return rnd.random() < 0.5
        if kind == "float":
            x = rnd.choice([rnd.uniform(1e-3, 1.0), rnd.uniform(1e-4, 4.0), 2.0 ** rnd.randint(-12, 3) * rnd.uniform(1, 2)])
            if d[1] == "f32":
                bits = struct.unpack("<I", struct.pack("<f", x))[0]
                return {"fpbits": bits, "ebits": 8, "sbits": 24}
            return {"fpbits": struct.unpack("<Q", struct.pack("<d", x))[0], "ebits": 11, "sbits": 53}
        if kind == "np":
            bits = {"int8": 8, "int16": 16, "int32": 32, "int64": 64}.get(d[1], 32)
            return {"bv": rnd.getrandbits(bits) if rnd.random() < 0.7 else rnd.choice([0, 1, (1 << (bits - 1)) - 1, 1 << (bits - 1)]), "bits": bits}
        if kind == "big":
            lo, hi = d[1], d[2]
            bits = max(abs(lo), abs(hi) + 1).bit_length() + 1
            v = rnd.choice([lo, hi, rnd.randint(lo, hi)])
            return {"bv": v & ((1 << bits) - 1), "bits": bits}
        return None

    for _ in range(tries):
        values = {}
        for name, d in decls.items():
            v = pick(d)
            if v is not None:
                values[name] = v
        try:
            res, failed = run_concrete(fn, values)
        except BaseException:  # noqa - a candidate that crashes the harness is simply not a witness
            continue
        if res == "violated":
            return values, failed
    return None


def run_concrete(fn, values):
    """replay: run the harness body on concrete values without shims; returns
    ('violated', failed_claims) | ('holds', []) | ('not-applicable', reason)"""
    global CTX
    CTX = None
    V = ConcV(values)
    try:
        post = fn(V)
    except PathAbort as e:
        return ("not-applicable", str(e))
    claims = normalise_post(post)
    if claims is None:
        return ("not-applicable", "path not subject to the claim")
    failed = []
    for n, c in claims:
        s = z3.simplify(c)
        if z3.is_false(s):
            failed.append(n)
        elif not z3.is_true(s):
            # ground but not simplified: decide with the solver
            sv = z3.Solver()
            sv.add(z3.Not(c))
            if str(sv.check()) == "sat":
                failed.append(n)
    return ("violated", failed) if failed else ("holds", [])
