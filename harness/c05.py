"""C05 - tensor allocators never overlap live buffers and report their true footprint.

HillClimb : allocate_indices over every permutation (covers every value the RNG can produce), symbolic sizes, mixed
            alignments; search() loop body step lemma (publication rule + ranking function); attempt_bottleneck_fix keeps a
            permutation; allocate() end-to-end with an arbitrary RNG for a bounded number of iterations.
Greedy    : inductive step of alloc() from an arbitrary state satisfying the representation invariant; whole runs.
Linear    : linear_allocate_live_ranges with sharing patterns.
verify_allocation must reject every overlapping symbolic placement (so weakening it is detected too).
"""
import itertools

import z3

from symx import core, rat
from symx.core import SBool, SInt, L, B

EXPLANATION = "C05: Greedy / HillClimb / LinearAlloc executed on symbolic sizes; interval oracle independent of verify_allocation."
SHIMS = ["hillclimb_allocation/greedy_allocation/tensor_allocation: min,max -> ite shims; int -> identity on proxies; math.ceil on proxies",
         "hillclimb_allocation.random.randint -> arbitrary in-range value (forks) in the search/allocate harnesses"]
ASSUMPTIONS = [
    "live ranges have start_time <= end_time and size >= 1 (storage_size forces at least one byte)",
    "alignments are powers of two from {16, 64, 128} (Tensor.AllocationQuantum and --cpu-tensor-alignment values)",
    "Greedy step: current_allocs is sorted, pairwise disjoint and every entry is live at the allocation time (established by "
    "alloc itself: shown as a post-condition of the same step)",
    "Greedy accuracy clause: GreedyAllocator reserves round_up(size, alignment) per range, so total - top < alignment is accepted; "
    "under-reporting (total < top) is a violation",
]
OUTSIDE = ["more than 4 live ranges in whole-run harnesses (inductive step lemmas carry the unbounded part)",
           "the pseudo-random sequence itself (all values of every randint call are explored instead)"]
BOUNDS = {
    "quick": {"hillclimb": "n<=3 ranges, every [start,end] within T=3 time slots, all permutations, alignment vectors from {16,64,128}, sizes in [1,2^32]",
              "greedy": "step: k<=3 current allocs; whole: n<=3, T=3", "linear": "n<=3 tensors, all sharing patterns",
              "allocate": "n=2 ranges, 1 search iteration, all RNG values"},
    "thorough": {"hillclimb": "n<=4, T=4 (symmetry-reduced), alignments {16,64}", "greedy": "step k<=4; whole n<=4, T=4", "allocate": "n=3 with 1 search iteration; n=2 with 2 iterations; all RNG values"},
}


def ENCODED():
    import ethosu.vela.hillclimb_allocation as hc
    import ethosu.vela.greedy_allocation as ga
    import ethosu.vela.tensor_allocation as ta
    import ethosu.vela.numeric_util as nu
    import ethosu.vela.live_range as lr

    H = hc.HillClimbAllocator
    return [H.__init__, H.allocate_lr, H.allocate_indices, H.search, H.attempt_bottleneck_fix, H.add_predecessor_turns, H.allocate,
            hc.LiveRangeInfo.overlaps, hc.LiveRangeInfo.is_neighbour, hc.LiveRangeInfo.__lt__, ga.GreedyAllocator.alloc,
            ga.GreedyAllocator.dealloc, ga.GreedyAllocator.allocate_live_ranges, ta.linear_allocate_live_ranges,
            ta.hillclimb_allocate_live_ranges, ta.verify_allocation, ta.verify_alignment, nu.round_up, lr.LiveRange.set_address,
            lr.LiveRange.overlaps_address, lr.LiveRange.__lt__, lr.LiveRange.mark_usage, lr.merge_elementwise_op_ranges, lr._get_ifm_to_fuse,
            lr.tensor_should_be_ignored, lr.extract_live_ranges_from_schedule, ta.allocate]


class _Obj:
    def __init__(self, **kw):
        self.__dict__.update(kw)


class _Tens:
    """stand-in tensor: only what LiveRange / the allocators touch"""

    def __init__(self, name, eq=None):
        self.name = name
        self.address = None
        self.equivalence_id = eq if eq is not None else name
        self.ops = []
        self.consumer_list = [None]  # -> treated as a CPU tensor by verify_alignment (alignment is checked)
        self.weight_compression_config = None
        self.scale_compression_config = None
        self.purpose = None
        self.mem_area = None

    def equivalent(self, o):
        return self.equivalence_id == o.equivalence_id

    def storage_size(self):
        return 0


def _mk_lr(name, st, en, size, al):
    from ethosu.vela.live_range import LiveRange

    class _LR(LiveRange):
        # deterministic hash (the default id()-based hash makes set iteration order differ between re-executions)
        def __hash__(self):
            return hash(self.name)

    lr = _LR(None, al)
    lr.tensors = [_Tens(name)]
    lr.start_time, lr.end_time, lr.size, lr.name = st, en, size, name
    return lr


def _sizes(V, n, hi=2**32):
    return [V.int("size%d" % i, 1, hi) for i in range(n)]


def _disjoint(a0, s0, a1, s1):
    return z3.Or(L(a0) + L(s0) <= L(a1), L(a1) + L(s1) <= L(a0))


def _colive(t0, t1):
    return t0[0] <= t1[1] and t1[0] <= t0[1]


def _alloc_claims(times, sizes, aligns, addrs, total=None, exact_total=True, tag=""):
    n = len(times)
    cl = []
    for i in range(n):
        cl.append((tag + "address %d >= 0" % i, L(addrs[i]) >= 0))
        cl.append((tag + "address %d aligned to %d" % (i, aligns[i]), L(addrs[i]) % aligns[i] == 0))
        for j in range(i + 1, n):
            if _colive(times[i], times[j]):
                cl.append((tag + "co-live ranges %d,%d overlap" % (i, j), _disjoint(addrs[i], sizes[i], addrs[j], sizes[j])))
    if total is not None:
        top = L(0)
        for i in range(n):
            e = L(addrs[i]) + L(sizes[i])
            top = z3.If(e > top, e, top)
        if exact_total:
            cl.append((tag + "reported total == highest end address", L(total) == top))
        else:
            cl.append((tag + "reported total never below highest end address", L(total) >= top))
            cl.append((tag + "reported total within one alignment unit of the top", L(total) - top < max(aligns)))
    return cl


# ------------------------------------------------------------------------------------------------ hillclimb


def _hc_shims():
    import ethosu.vela.hillclimb_allocation as hc
    import ethosu.vela.tensor_allocation as ta

    return (hc, {"min": core.smin, "max": core.smax, "sum": core.ssum}), (ta, {"min": core.smin, "max": core.smax, "int": core.sint, "math": rat.SMATH})


def hc_indices(V, times, aligns):
    """allocate_indices for a symbolic choice of permutation; best_size symbolic (covers the early break)."""
    import ethosu.vela.hillclimb_allocation as hc

    n = len(times)
    sizes = _sizes(V, n)
    perms = list(itertools.permutations(range(n)))
    perm = V.choice("perm", perms)
    best = V.int("best_size", 0, 2**40)
    lrs = [_mk_lr("t%d" % i, times[i][0], times[i][1], sizes[i], aligns[i]) for i in range(n)]
    with core.shims(*_hc_shims()):
        alloc = hc.HillClimbAllocator(lrs, 10, 1 << 62)
        # independent check of min_required_size
        peak = L(0)
        for t in range(1 + max(e for _, e in times)):
            s = sum([L(sizes[i]) for i in range(n) if times[i][0] <= t <= times[i][1]], L(0))
            peak = z3.If(s > peak, s, peak)
        claims = [("min_required_size == peak of summed live sizes", L(alloc.min_required_size) == peak)]
        alloc.best_size = best
        size = alloc.allocate_indices(list(perm))
    truncated = z3.simplify(L(size) > L(best)) if True else None
    # the result is published by search()/allocate() only if size <= best_size; then all ranges must have been placed
    pub = L(size) <= L(best)
    addrs = [a.address for a in alloc.lrs]
    inner = _alloc_claims(times, sizes, aligns, addrs, total=size, exact_total=True)
    for name, c in inner:
        claims.append((name + " (when publishable)", z3.Implies(pub, B(c))))
    claims.append(("footprint >= peak live size (when publishable)", z3.Implies(pub, L(size) >= peak)))
    for i, a in enumerate(alloc.lrs):
        claims.append(("end_address consistent %d" % i, z3.Implies(pub, L(a.end_address) == L(a.address) + L(sizes[i]))))
    return claims


def hc_wrapper(V, times, aligns):
    """tensor_allocation.hillclimb_allocate_live_ranges: the reported total is the top of the published addresses and
    verify_allocation accepts them (allocate() replaced by allocate_indices of an arbitrary permutation)."""
    import ethosu.vela.hillclimb_allocation as hc
    import ethosu.vela.tensor_allocation as ta

    n = len(times)
    sizes = _sizes(V, n)
    perm = V.choice("perm", list(itertools.permutations(range(n))))
    lrs = [_mk_lr("t%d" % i, times[i][0], times[i][1], sizes[i], aligns[i]) for i in range(n)]

    class G:
        pass

    g = G()
    g.lrs = lrs
    saved = hc.HillClimbAllocator.allocate

    def fake_allocate(self):
        self.best_size = self.allocate_indices(list(perm))
        self.allocated_addresses = [lr.address for lr in self.lrs]
        return self.allocated_addresses

    try:
        hc.HillClimbAllocator.allocate = fake_allocate
        with core.shims(*_hc_shims()):
            total = ta.hillclimb_allocate_live_ranges(g, 16, 10, 1 << 62)
    except ta.AllocationError as e:
        return [("verify_allocation rejected a hill-climb allocation: %s" % e, False)]
    finally:
        hc.HillClimbAllocator.allocate = saved
    addrs = [lr.tensors[0].address for lr in lrs]
    return _alloc_claims(times, sizes, aligns, addrs, total=total, exact_total=True)


def hc_search_step(V, n):
    """one iteration of search()'s loop body with attempt_bottleneck_fix := arbitrary permutation and allocate_indices :=
    arbitrary outcome.  Claims: (a) allocated_addresses is only overwritten by a complete allocation whose size is <= the
    previous best; (b) best_size never increases; (c) the loop condition's ranking function decreases or best_size strictly
    decreases, so the loop ends after at most max_iterations + MIN_ITERATIONS_IMPROVE * (#improvements+1) iterations."""
    import ethosu.vela.hillclimb_allocation as hc

    H = hc.HillClimbAllocator
    best0 = V.int("best0", 1, 2**40)
    new_size = V.int("new_size", 0, 2**41)
    min_req = V.int("min_required", 0, 2**40)
    limit = V.int("memory_limit", 0, 2**40)
    max_it = V.int("max_iterations", 0, 10**6)
    alloc = H.__new__(H)
    alloc.best_size = best0
    alloc.min_required_size = min_req
    alloc.memory_limit = limit
    alloc.max_iterations = max_it
    alloc.allocated_addresses = ["old"]
    alloc.lrs = []
    calls = {"n": 0}
    complete = V.bool("allocation_complete")  # whether allocate_indices placed every range (no early break)
    V.assume(z3.Implies(z3.Not(B(complete)), L(new_size) > L(best0)))  # allocate_indices breaks early only if size > best_size

    class Done(Exception):
        pass

    class _A:
        def __init__(s, a):
            s.address = a

    def fix(self, indices, stuck):
        calls["n"] += 1
        if calls["n"] > 1:
            raise Done()

    def alloc_idx(self, indices):
        self.lrs = [_A("new")]
        return new_size

    saved = (H.attempt_bottleneck_fix, H.allocate_indices)
    H.attempt_bottleneck_fix, H.allocate_indices = fix, alloc_idx
    try:
        try:
            alloc.search([0])
            returned = True
        except Done:
            returned = False
    finally:
        H.attempt_bottleneck_fix, H.allocate_indices = saved
    if calls["n"] == 0:
        # loop not entered: nothing may change
        return [("no iteration: state unchanged", z3.And(L(alloc.best_size) == L(best0), alloc.allocated_addresses == ["old"]))]
    published = alloc.allocated_addresses == ["new"]
    cl = [("best_size never increases", L(alloc.best_size) <= L(best0)),
          ("publication only of complete allocations not worse than the best", (not published) or z3.And(B(complete), L(new_size) <= L(best0))),
          ("best_size is the published size", (not published) or L(alloc.best_size) == L(new_size)),
          ("an improving complete allocation is always taken", z3.Implies(z3.And(B(complete), L(new_size) <= L(best0)), z3.BoolVal(published)))]
    if returned:
        # search() returned after a single iteration: only legal when the target was reached
        cl.append(("early return only when the optimum is reached", L(alloc.best_size) <= L(min_req)))
    return cl


def hc_fix_perm(V, times, aligns, stuck, perm):
    """attempt_bottleneck_fix after a real, non-optimal allocation (the only situation in which search() calls it):
    indices stays a permutation, no index/value error, for every RNG value."""
    import ethosu.vela.hillclimb_allocation as hc

    n = len(times)
    sizes = _sizes(V, n, hi=2**20)
    perm = list(perm)
    lrs = [_mk_lr("t%d" % i, times[i][0], times[i][1], sizes[i], aligns[i]) for i in range(n)]
    cnt = [0]

    def randint(a, b):
        if a > b:
            raise ValueError("empty range for randrange() (%d, %d)" % (a, b))
        if a == b:
            return a
        cnt[0] += 1
        v = V.int("rnd%d" % cnt[0], a, b)
        return v.small_value(a, b) if V.symbolic else v

    class R:
        pass

    r = R()
    r.randint = randint
    saved = hc.random
    hc.random = r
    try:
        with core.shims(*_hc_shims()):
            alloc = hc.HillClimbAllocator(lrs, 10, 1 << 62)
            size = alloc.allocate_indices(perm)
            V.assume(L(size) > L(alloc.min_required_size))
            try:
                alloc.attempt_bottleneck_fix(perm, stuck)
            except (IndexError, ValueError, AssertionError) as e:
                return [("attempt_bottleneck_fix raised %s: %s" % (type(e).__name__, e), False)]
    finally:
        hc.random = saved
    return [("indices is still a permutation", sorted(perm) == list(range(n)))]


def hc_allocate(V, times, aligns, iters):
    """HillClimbAllocator.allocate() end to end with an arbitrary RNG, loop bounded to `iters` iterations
    (MIN_ITERATIONS_IMPROVE and max_iterations set to `iters`: a stated unwinding bound)."""
    import ethosu.vela.hillclimb_allocation as hc

    n = len(times)
    sizes = _sizes(V, n, hi=2**20)
    lrs = [_mk_lr("t%d" % i, times[i][0], times[i][1], sizes[i], aligns[i]) for i in range(n)]
    cnt = [0]

    def randint(a, b):
        if a > b:
            raise ValueError("empty range")
        if a == b:
            return a
        cnt[0] += 1
        v = V.int("rnd%d" % cnt[0], a, b)
        return v.small_value(a, b) if V.symbolic else v

    class R:
        pass

    r = R()
    r.randint = randint
    r.seed = lambda s: None
    saved = hc.random
    saved_min = hc.HillClimbAllocator.MIN_ITERATIONS_IMPROVE
    hc.random = r
    hc.HillClimbAllocator.MIN_ITERATIONS_IMPROVE = iters
    try:
        with core.shims(*_hc_shims()):
            alloc = hc.HillClimbAllocator(lrs, iters, 0)
            addrs = alloc.allocate()
    finally:
        hc.random = saved
        hc.HillClimbAllocator.MIN_ITERATIONS_IMPROVE = saved_min
    cl = _alloc_claims(times, sizes, aligns, addrs)
    top = L(0)
    for i in range(n):
        e = L(addrs[i]) + L(sizes[i])
        top = z3.If(e > top, e, top)
    cl.append(("best_size is the footprint of the published addresses", L(alloc.best_size) == top))
    return cl


# ------------------------------------------------------------------------------------------------ greedy


def _ga_shims():
    import ethosu.vela.greedy_allocation as ga
    import ethosu.vela.tensor_allocation as ta

    return (ga, {"min": core.smin, "max": core.smax}), (ta, {"min": core.smin, "max": core.smax, "int": core.sint, "math": rat.SMATH})


def greedy_step(V, k, new_al, cur_als):
    """inductive step of GreedyAllocator.alloc from an arbitrary state satisfying the representation invariant"""
    import ethosu.vela.greedy_allocation as ga

    g = ga.GreedyAllocator(None)
    cur = []
    prev_end = None
    for i in range(k):
        a = V.int("addr%d" % i, 0, 2**40)
        s = V.int("cur_size%d" % i, 1, 2**32)
        V.assume(L(a) % cur_als[i] == 0)
        if prev_end is not None:
            V.assume(L(a) >= prev_end)  # sorted and disjoint
        prev_end = L(a) + L(s)
        lr = _mk_lr("c%d" % i, 0, 10, s, cur_als[i])
        lr.set_address(a)
        cur.append((a, lr))
    g.current_allocs = list(cur)
    mem0 = V.int("memory_required0", 0, 2**41)
    if prev_end is not None:
        V.assume(L(mem0) >= prev_end)
    g.memory_required = mem0
    size = V.int("new_size", 1, 2**32)
    new = _mk_lr("new", 5, 6, size, new_al)
    with core.shims(*_ga_shims()):
        g.alloc(new)
    addr = new.tensors[0].address
    cl = [("new address >= 0", L(addr) >= 0), ("new address aligned", L(addr) % new_al == 0)]
    for i, (a, lr) in enumerate(cur):
        cl.append(("new block overlaps current block %d" % i, _disjoint(addr, size, a, lr.size)))
    cl.append(("memory_required covers the new block", L(g.memory_required) >= L(addr) + L(size)))
    cl.append(("memory_required is monotone", L(g.memory_required) >= L(mem0)))
    cl.append(("memory_required grows by less than one alignment unit beyond the block end",
               z3.Or(L(g.memory_required) == L(mem0), L(g.memory_required) - (L(addr) + L(size)) < new_al)))
    # invariant re-established: sorted, disjoint, contains new
    ca = g.current_allocs
    cl.append(("current_allocs has k+1 entries", len(ca) == k + 1))
    for (a0, l0), (a1, l1) in zip(ca, ca[1:]):
        cl.append(("current_allocs sorted and disjoint after the step", L(a0) + L(l0.size) <= L(a1)))
    return cl


def greedy_whole(V, times, aligns):
    import ethosu.vela.greedy_allocation as ga
    import ethosu.vela.tensor_allocation as ta

    n = len(times)
    sizes = _sizes(V, n)
    lrs = [_mk_lr("t%d" % i, times[i][0], times[i][1], sizes[i], aligns[i]) for i in range(n)]

    class G:
        pass

    g = G()
    g.lrs = lrs
    with core.shims(*_ga_shims()):
        total = ga.allocate_live_ranges(g, 16)
        addrs = [lr.tensors[0].address for lr in lrs]
        cl = _alloc_claims(times, sizes, aligns, addrs, total=total, exact_total=False)
        # accuracy: exact when every size is a multiple of its alignment
        top = L(0)
        for i in range(n):
            e = L(addrs[i]) + L(sizes[i])
            top = z3.If(e > top, e, top)
        allmult = z3.And(*[L(sizes[i]) % aligns[i] == 0 for i in range(n)])
        cl.append(("total == top when sizes are multiples of the alignment", z3.Implies(allmult, L(total) == top)))
        try:
            ta.verify_allocation(g, 16)
            cl.append(("verify_allocation accepts the greedy allocation", True))
        except ta.AllocationError as e:
            cl.append(("verify_allocation rejected a greedy allocation: %s" % e, False))
    return cl


def verify_rejects(V, times):
    """verify_allocation raises on every overlapping placement of co-live ranges (and accepts every disjoint one)."""
    import ethosu.vela.tensor_allocation as ta
    import ethosu.vela.live_range as lrm

    n = len(times)
    sizes = _sizes(V, n)
    addrs = [V.int("addr%d" % i, 0, 2**40) for i in range(n)]
    for a in addrs:
        V.assume(L(a) % 16 == 0)
    lrs = [_mk_lr("t%d" % i, times[i][0], times[i][1], sizes[i], 16) for i in range(n)]
    for lr, a in zip(lrs, addrs):
        lr.set_address(a)

    class G:
        pass

    g = G()
    g.lrs = lrs
    bad = z3.Or(*[z3.Not(_disjoint(addrs[i], sizes[i], addrs[j], sizes[j])) for i in range(n) for j in range(i + 1, n)
                  if _colive(times[i], times[j])] or [z3.BoolVal(False)])
    with core.shims((ta, {"min": core.smin, "max": core.smax}), (lrm, {"min": core.smin, "max": core.smax})):
        try:
            ta.verify_allocation(g, 16)
            raised = False
        except ta.AllocationError:
            raised = True
    return [("verify_allocation raises iff co-live ranges overlap", z3.BoolVal(raised) == bad)]


# ------------------------------------------------------------------------------------------------ linear


def linear(V, n, share, aligns=None):
    """share: list of length n; share[i] = j < i means tensor i has the same weight_compression_config as tensor j.
    aligns: per-range alignment (a range may ask for more than the allocation granularity, e.g. --cpu-tensor-alignment 64)"""
    import ethosu.vela.tensor_allocation as ta

    sizes = _sizes(V, n)
    aligns = aligns or [16] * n
    lrs = [_mk_lr("t%d" % i, 0, 1, sizes[i], aligns[i]) for i in range(n)]
    for i in range(n):
        t = lrs[i].tensors[0]
        t.weight_compression_config = ("cfg", share[i])
        t.scale_compression_config = ("scfg", share[i])

    class G:
        pass

    g = G()
    g.lrs = lrs
    g.ranges = {lr.tensors[0]: lr for lr in lrs}
    gran = 16
    with core.shims((ta, {"min": core.smin, "max": core.smax, "int": core.sint, "math": rat.SMATH})):
        total = ta.linear_allocate_live_ranges(g, gran)
    addrs = [lr.tensors[0].address for lr in lrs]
    cl = []
    owners = sorted(set(share))
    exp = L(0)
    for i in range(n):
        cl.append(("address %d aligned" % i, L(addrs[i]) % gran == 0))
        if share[i] != i:
            cl.append(("shared tensor %d placed at its twin's address" % i, L(addrs[i]) == L(addrs[share[i]])))
    for i in owners:
        exp = exp + ((L(sizes[i]) + gran - 1) / gran) * gran
        for j in owners:
            if i < j:
                cl.append(("distinct tensors %d,%d overlap" % (i, j), _disjoint(addrs[i], sizes[i], addrs[j], sizes[j])))
    if all(a == gran for a in aligns):
        cl.append(("total == sum of rounded sizes of distinct tensors", L(total) == exp))
    top = L(0)
    for i in owners:
        e = L(addrs[i]) + ((L(sizes[i]) + gran - 1) / gran) * gran
        top = z3.If(e > top, e, top)
    if all(a == gran for a in aligns):
        cl.append(("total == top", L(total) == top))
    else:
        cl.append(("total never below the highest end address", L(total) >= top))
    return cl


def dispatch(V, allocator, alignment, times):
    """tensor_allocation.allocate(): whichever allocator is selected is run with the REQUESTED tensor alignment and (HillClimb) the requested
    iteration bound and the memory-type size as limit.  Live-range extraction is replaced by a fixed graph with symbolic sizes whose ranges carry
    the requested alignment (what get_or_create_range gives them); the three allocators and verify_allocation/verify_alignment are the real ones."""
    import ethosu.vela.hillclimb_allocation as hc
    import ethosu.vela.tensor_allocation as ta
    import ethosu.vela.greedy_allocation as ga
    from ethosu.vela.tensor import MemArea, MemType
    from ethosu.vela.nn_graph import TensorAllocator

    n = len(times)
    sizes = _sizes(V, n)
    # who touches the tensor decides the alignment its live range asks for (scheduler / live_range): a tensor a CPU operator reads or writes
    # asks for the CPU tensor alignment, one only NPU operators touch - or an NPU-internal buffer without any operator - for 16 bytes
    kinds = [V.choice("tensor%d is" % i, ("cpu tensor", "npu tensor", "buffer without operators")) if (alignment > 16 and i < 2) else "cpu tensor" for i in range(n)]
    aligns = [alignment if k == "cpu tensor" else 16 for k in kinds]
    lrs = [_mk_lr("t%d" % i, times[i][0], times[i][1], sizes[i], aligns[i]) for i in range(n)]
    for i, lr in enumerate(lrs):
        t = lr.tensors[0]
        t.weight_compression_config = ("cfg", i)
        t.scale_compression_config = ("scfg", i)
        if kinds[i] == "npu tensor":
            t.ops, t.consumer_list = [_Obj(run_on_npu=True)], [_Obj(run_on_npu=True)]
        elif kinds[i] != "cpu tensor":
            t.ops, t.consumer_list = [], []

    class G:
        pass

    g = G()
    g.lrs = lrs
    g.ranges = {lr.tensors[0]: lr for lr in lrs}
    bound = V.int("hillclimb_max_iterations", 0, 1000)
    msize = V.int("mem_type_size", 1 << 20, 1 << 40)
    seen = {}
    saved = (ta.live_range.extract_live_ranges_from_cascaded_passes, hc.HillClimbAllocator.allocate)

    def fake_allocate(self):
        seen["max_iterations"], seen["memory_limit"] = self.max_iterations, self.memory_limit
        self.best_size = self.allocate_indices(list(range(len(self.lrs))))
        self.allocated_addresses = [lr.address for lr in self.lrs]
        return self.allocated_addresses

    ta.live_range.extract_live_ranges_from_cascaded_passes = lambda *a, **k: g
    hc.HillClimbAllocator.allocate = fake_allocate
    try:
        with core.shims(*(_hc_shims() + ((ta, {"min": core.smin, "max": core.smax, "int": core.sint, "math": rat.SMATH}),
                                         (ga, {"min": core.smin, "max": core.smax})))):
            _, total = ta.allocate(None, _Obj(mem_type_size=lambda mt: msize), MemArea.Sram, {MemType.Scratch}, TensorAllocator[allocator], None, alignment,
                                   bound)
    except ta.AllocationError as e:
        return [("allocate() raised AllocationError on a legal request: %s" % e, False)]
    finally:
        ta.live_range.extract_live_ranges_from_cascaded_passes, hc.HillClimbAllocator.allocate = saved
    addrs = [lr.tensors[0].address for lr in lrs]
    cl = []
    top = L(0)
    for i in range(n):
        cl.append(("tensor %d (%s) honours its requested alignment %d" % (i, kinds[i], aligns[i]), L(addrs[i]) % aligns[i] == 0))
        e = L(addrs[i]) + L(sizes[i])
        top = z3.If(e > top, e, top)
        for j in range(i + 1, n):
            if allocator == "LinearAlloc" or _colive(times[i], times[j]):
                cl.append(("tensors %d,%d disjoint" % (i, j), _disjoint(addrs[i], sizes[i], addrs[j], sizes[j])))
    cl.append(("reported total covers the highest end address", L(total) >= top))
    if allocator == "HillClimb":
        cl.append(("HillClimb runs with the requested iteration bound", L(seen.get("max_iterations", -1)) == L(bound)))
        cl.append(("HillClimb is limited by the size of the memory type", L(seen.get("memory_limit", -1)) == L(msize)))
    return cl


def lr_alignment(V, first, second):
    """LiveRangeGraph.get_or_create_range: a live range looked up again (with the default or a smaller alignment) keeps the strictest
    alignment ever requested for it - both allocators read lr.get_alignment()"""
    import ethosu.vela.live_range as lrm
    from ethosu.vela.tensor import Tensor
    from ethosu.vela.data_type import DataType

    t = Tensor([1, 4, 4, 16], DataType.int8, "t")
    g = lrm.LiveRangeGraph()
    a1 = V.choice("align1", [16, 32, 64, 128]) if first is None else first
    a2 = V.choice("align2", [None, 16, 32, 64, 128]) if second is None else second
    r1 = g.get_or_create_range(t, a1)
    r2 = g.get_or_create_range(t) if a2 is None else g.get_or_create_range(t, a2)
    want = max(a1, 16 if a2 is None else a2)
    return [("same live range returned", r1 is r2), ("alignment is the strictest ever requested", r2.get_alignment() == want)]


# ------------------------------------------------------------------------------------------------ instances

def lr_extract(V, shape):
    """the requested CPU tensor alignment reaches every live range the allocators will place: the REAL extract_live_ranges_from_cascaded_passes
    on stand-in subgraphs (cascaded passes with input/intermediate/output tensors; control-flow operators whose `subgraph` attribute holds nested
    subgraphs, one or two levels deep) with a SYMBOLIC alignment: every tensor of every level gets a live range whose alignment is the requested
    one, and its lifetime covers the pass that uses it."""
    import ethosu.vela.live_range as lrm
    from ethosu.vela.operation import Op
    from ethosu.vela.tensor import Tensor, MemArea, MemType
    from ethosu.vela.data_type import DataType

    A = V.int("cpu_tensor_alignment", 16, 256)
    V.assume(L(A) % 16 == 0)

    class O:
        def __init__(self, **kw):
            self.__dict__.update(kw)

    alltens = []

    def tens(name):
        t = Tensor([1, 4, 4, 3], DataType.int8, name)
        t.mem_area, t.mem_type = MemArea.Sram, MemType.Scratch
        alltens.append(t)
        return t

    def cps(name, ins, outs, inter=(), op=None):
        return O(name=name, inputs=list(ins), outputs=list(outs), intermediates=list(inter), passes=[O(ops=[op] if op else [])], time=None)

    def leaf(tag, tin):
        a, b = tens(tag + "_a"), tens(tag + "_b")
        return O(name=tag, cascaded_passes=[cps(tag + "0", [tin], [a], op=O(type=Op.Relu, attrs={})), cps(tag + "1", [a], [b], inter=[tens(tag + "_tmp")], op=O(type=Op.Relu, attrs={}))],
                 output_tensors=[b])

    x = tens("x")
    if shape == "flat":
        sg = leaf("main", x)
    else:
        cond, body = leaf("cond", x), leaf("body", x)
        if shape == "nested2":
            inner_c, inner_b = leaf("inner_cond", body.output_tensors[0]), leaf("inner_body", body.output_tensors[0])
            y2 = tens("inner_out")
            body.cascaded_passes.append(cps("inner_while", [body.output_tensors[0]], [y2], op=O(type=Op.While, attrs={"subgraph": [inner_c, inner_b]})))
            body.output_tensors = [y2]
        y = tens("y")
        z = tens("z")
        sg = O(name="main", cascaded_passes=[cps("while", [x], [y], op=O(type=Op.While, attrs={"subgraph": [cond, body]})),
                                             cps("after", [y], [z], op=O(type=Op.Relu, attrs={}))], output_tensors=[z])
    with core.shims((lrm, {"max": core.smax, "min": core.smin})):
        g = lrm.extract_live_ranges_from_cascaded_passes(sg, MemArea.Sram, {MemType.Scratch}, None, A)
    cl = []
    for t in alltens:
        r = g.ranges.get(t)
        cl.append(("tensor %s has a live range" % t.name, r is not None))
        if r is not None:
            cl.append(("live range of %s carries the requested alignment" % t.name, L(r.get_alignment()) == L(A)))
            cl.append(("live range of %s is non-empty" % t.name, L(r.start_time) <= L(r.end_time)))
    return cl


def ifm_fuse(V, **params):
    """two tensors may only share a live range (one address) when the output really replaces the input: harness/c03.py ifm_fuse (the real
    live_range._get_ifm_to_fuse), registered here because a wrong fusion makes every allocator place two live tensors on the same bytes"""
    from harness import c03

    return c03.ifm_fuse(V, **params)


def wbuf_lifetime(V, **params):
    """the double-buffered weight buffer that holds the LAST depth slice stays alive to the end of the operation (harness/c03.py wbuf): ended one
    step early, the allocators - which keep co-live ranges disjoint - hand its bytes to the next operator while the NPU still reads them"""
    from harness import c03

    return c03.wbuf(V, **params)


def wbuf_live(V, **params):
    """every SRAM weight buffer's live range is marked and covers its operation's time step (harness/c03.py wbuf_live: the real
    extract_live_ranges_from_schedule / LiveRange.mark_usage): the allocators keep co-live ranges apart only if the ranges say when they live"""
    from harness import c03

    return c03.wbuf_live(V, **params)


def lr_sizes(V, rank):
    """the size every allocator is given for a tensor is the number of bytes the tensor occupies: the REAL Tensor.storage_size() for a symbolic
    storage shape (dimensions may be 0: an empty tensor still takes one allocation quantum, a zero-size range lets Greedy reset its scan) and
    element type; it agrees with storage_size_for_shape(); and a size query before a rewrite widens the element type (clone + dtype change, as
    the LeakyReLU / SquaredDifference lowerings do) does not leave the old element size behind."""
    import ethosu.vela.tensor as tensor
    import ethosu.vela.numeric_util as nu
    from ethosu.vela.tensor import Tensor
    from ethosu.vela.data_type import DataType

    dims = [V.int("d%d" % i, 0, 64) for i in range(rank)]
    dt = V.choice("dtype", [DataType.int8, DataType.int16, DataType.int32])
    t = Tensor([1] * rank, dt, "t")
    t.storage_shape = list(dims)
    with core.shims((tensor, {"min": core.smin, "max": core.smax, "int": core.sint}), (nu, {"int": core.sint, "math": rat.SMATH})):
        size = t.storage_size()
        size2 = t.storage_size_for_shape(list(dims))
        # the rewrite: an 8-bit tensor that has been sized is cloned and the clone becomes 32-bit
        t8 = Tensor([1, 4, 4, 4], DataType.int8, "a")
        before = t8.storage_size()
        c = t8.clone("_wide", set_unique=True)
        c.dtype = DataType.int32
        after = c.storage_size()
    elems = L(1)
    for d in dims:
        elems = elems * L(d)
    raw = elems * (dt.size_in_bits() // 8)
    want = z3.If(raw == 0, 16, ((raw + 15) / 16) * 16)
    return [("the size is the bytes of the storage shape, at least one quantum, in whole quanta", L(size) == want),
            ("storage_size_for_shape agrees", L(size2) == want),
            ("a widened clone reports its own element size", int(before) == 64 and int(after) == 256)]


def report(V):
    """the footprint a subgraph reports is the sum of what was allocated into it: the REAL allocate_tensors (the allocators themselves stubbed to a
    symbolic total) called three times for one subgraph - feature maps, then constants into the SAME memory area (Sram-only modes), then a call
    that may be a dry test or exceed a symbolic size limit.  memory_used / memory_used_per_type equal the sums of the successful calls, a failed or
    dry call leaves them untouched and undoes its addresses, and the verdict is total <= limit."""
    import ethosu.vela.tensor_allocation as ta
    from ethosu.vela.tensor import MemArea, MemType

    t1, t2, t3 = V.int("total1", 1, 1 << 32), V.int("total2", 1, 1 << 32), V.int("total3", 1, 1 << 32)
    limit = V.int("max_size", 0, 1 << 33)
    dry = bool(V.bool("dry_test"))
    undone = []

    class LR:
        def set_address(self, a):
            undone.append(a)

    totals = iter([t1, t2, t3])
    saved = ta.allocate
    ta.allocate = lambda *a, **k: (_Obj(ranges={"x": LR(), "y": LR()}), next(totals))
    sg = _Obj(memory_used={}, memory_used_per_type={}, name="sg")
    nng = _Obj(subgraphs=[], get_root_subgraph=lambda: sg, memory_used=None)
    try:
        with core.shims((ta, {"min": core.smin, "max": core.smax})):
            r1 = ta.allocate_tensors(nng, sg, None, MemArea.Dram, {MemType.Scratch, MemType.Scratch_fast})
            r2 = ta.allocate_tensors(nng, sg, None, MemArea.Dram, {MemType.Permanent_CPU})
            n_before = len(undone)
            r3 = ta.allocate_tensors(nng, sg, None, MemArea.Dram, {MemType.Scratch}, max_size=limit, dry_test=dry)
    finally:
        ta.allocate = saved
    fits = L(t3) <= L(limit)
    kept = z3.And(fits, z3.BoolVal(not dry))
    area = sg.memory_used.get(MemArea.Dram, 0)
    per = sg.memory_used_per_type
    return [("unlimited allocations succeed", r1 is True and r2 is True),
            ("the verdict of a limited allocation is total <= limit", B(r3) == fits),
            ("the area's footprint is the sum of the allocations that were kept", L(area) == L(t1) + L(t2) + z3.If(kept, L(t3), 0)),
            ("scratch footprint", L(per.get(MemType.Scratch, 0)) == L(t1) + z3.If(kept, L(t3), 0)),
            ("fast scratch footprint", L(per.get(MemType.Scratch_fast, 0)) == L(t1)),
            ("constants footprint", L(per.get(MemType.Permanent_CPU, 0)) == L(t2)),
            ("the root subgraph's footprint is what the network reports", nng.memory_used is sg.memory_used),
            ("a failed or dry allocation undoes exactly its own addresses", z3.If(kept, len(undone) == n_before, z3.BoolVal(len(undone) == n_before + 2 and all(a is None for a in undone[n_before:]))))]


def address_map(V, nsteps):
    """Tensor.address goes through TensorAddressMap (equivalence id x memory type -> address): every history of `nsteps` set operations (which of two
    ids, which of two memory types, a symbolic address or None = allocation undone) against a plain dictionary model - the address read back for
    every (id, type) is the last one set for exactly that pair."""
    from ethosu.vela.tensor import TensorAddressMap, MemType

    ids, types = ["id_a", "id_b"], [MemType.Permanent_NPU, MemType.Permanent_CPU]
    saved = TensorAddressMap.address_map
    TensorAddressMap.clear_address_map()
    model = {}
    try:
        for i in range(nsteps):
            e = V.choice("step%d_id" % i, ids)
            t = V.choice("step%d_type" % i, types)
            none = bool(V.bool("step%d_undo" % i))
            a = None if none else V.int("step%d_addr" % i, 0, 1 << 32)
            prev = model.get((e, t))
            if a is not None and prev is not None:
                V.assume(L(a) == L(prev))  # the documented precondition: a tensor is not given two different addresses without an undo in between
            TensorAddressMap.set_address_for_tens(e, t, a)
            model[(e, t)] = a
        cl = []
        for e in ids:
            for t in types:
                got, want = TensorAddressMap.get_address_for_tens(e, t), model.get((e, t))
                cl.append(("address of (%s, %s) is the last one set for that pair" % (e, t.name), (got is None) if want is None else (got is not None and L(got) == L(want))))
    finally:
        TensorAddressMap.address_map = saved
    return cl


FUNCS = {"wbuf_live": wbuf_live, "lr_sizes": lr_sizes, "report": report, "address_map": address_map, "ifm_fuse": ifm_fuse, "wbuf_lifetime": wbuf_lifetime, "lr_extract": lr_extract, "hc_indices": hc_indices, "hc_wrapper": hc_wrapper, "hc_search_step": hc_search_step, "hc_fix_perm": hc_fix_perm,
         "hc_allocate": hc_allocate, "greedy_step": greedy_step, "greedy_whole": greedy_whole, "verify_rejects": verify_rejects,
         "linear": linear, "lr_alignment": lr_alignment, "dispatch": dispatch}


def _time_vectors(n, T):
    ivs = [(a, b) for a in range(T) for b in range(a, T)]
    seen = set()
    for tv in itertools.product(ivs, repeat=n):
        yield tv


def _canon_times(n, T):
    """time vectors up to the symmetry that matters for whole-run harnesses: keep all (order matters for ids)"""
    return list(_time_vectors(n, T))


def instances(tier, seed):
    out = []
    quick = tier == "quick"
    mixed = [(16, 64, 128), (128, 16, 64), (64, 128, 16)]
    # quick: equal alignments plus two of the three mixed vectors (rotating with the seed); thorough: all 27 vectors
    align_sets3 = [(16, 16, 16), mixed[seed % 3], mixed[(seed + 1) % 3]] if quick else list(itertools.product((16, 64, 128), repeat=3))
    tk = lambda tv: "_".join("%d%d" % t for t in tv)  # noqa
    ak = lambda av: "a" + "-".join(map(str, av))  # noqa
    for n in (1, 2, 3):
        for tv in _canon_times(n, 3):
            asets = [a[:n] for a in align_sets3] if n == 3 else sorted({a[:n] for a in align_sets3})
            for av in asets:
                out.append(dict(key="hc_indices/%s/%s" % (tk(tv), ak(av)), fn="hc_indices", params=dict(times=list(tv), aligns=list(av)), weight=n ** 3))
                out.append(dict(key="greedy_whole/%s/%s" % (tk(tv), ak(av)), fn="greedy_whole", params=dict(times=list(tv), aligns=list(av)), weight=n ** 3))
            out.append(dict(key="hc_wrapper/%s" % tk(tv), fn="hc_wrapper", params=dict(times=list(tv), aligns=[16] * n), weight=n ** 3))
            out.append(dict(key="verify_rejects/%s" % tk(tv), fn="verify_rejects", params=dict(times=list(tv)), weight=n ** 2))
    if not quick:
        # n = 4, T = 4 on a reduced alignment set; time vectors sorted by start to cut symmetric copies for hc_indices
        for tv in _canon_times(4, 4):
            if list(tv) != sorted(tv):
                continue
            for av in ((16, 16, 16, 16), (16, 64, 16, 64), (64, 16, 64, 16)):
                out.append(dict(key="hc_indices/%s/%s" % (tk(tv), ak(av)), fn="hc_indices", params=dict(times=list(tv), aligns=list(av)), weight=100))
                out.append(dict(key="greedy_whole/%s/%s" % (tk(tv), ak(av)), fn="greedy_whole", params=dict(times=list(tv), aligns=list(av)), weight=100))
    for n in (1, 2, 3):
        out.append(dict(key="hc_search_step/%d" % n, fn="hc_search_step", params=dict(n=n)))
    kmax = 3 if quick else 4
    for k in range(0, kmax + 1):
        for new_al in (16, 64, 128):
            for cur_als in ([tuple([16] * k), tuple([64, 16, 128, 16][:k])] if k else [()]):
                out.append(dict(key="greedy_step/k%d/new%d/%s" % (k, new_al, ak(cur_als)), fn="greedy_step",
                                params=dict(k=k, new_al=new_al, cur_als=list(cur_als)), weight=3 ** k))
    ctv = _canon_times(3, 3)
    if quick:
        fix_cases = [(ctv[(17 * (seed + j)) % len(ctv)], p, 0) for j, p in enumerate([(0, 1, 2), (2, 0, 1), (1, 0, 2), (2, 1, 0)])]
        fix_cases += [(((0, 0), (0, 0), (0, 0)), (0, 1, 2), 0), (((0, 1), (1, 2), (0, 2)), (1, 2, 0), 0)]
    else:
        # attempt_bottleneck_fix is only reached after a non-optimal allocation, which needs two ranges alive at a common time
        colive = lambda tv: any(a[0] <= b[1] and b[0] <= a[1] for i, a in enumerate(tv) for b in tv[i + 1:])  # noqa
        fix_cases = [(tv, p, 0) for i, tv in enumerate(ctv) if i % 3 == seed % 3 and colive(tv) for p in itertools.permutations(range(3))]
        fix_cases += [(tv, p, 51) for i, tv in enumerate(ctv) if i % 9 == seed % 9 and colive(tv) for p in ((0, 1, 2), (2, 0, 1))]
    for tv, perm, stuck in fix_cases:
        out.append(dict(key="hc_fix_perm/%s/p%s/stuck%d" % (tk(tv), "".join(map(str, perm)), stuck), fn="hc_fix_perm",
                        params=dict(times=[list(t) for t in tv], aligns=[16, 64, 16], stuck=stuck, perm=list(perm)), weight=300))
    if quick:
        alloc_cases = [(((0, 1), (0, 1)), 1), (((0, 0), (0, 1)), 1), (((0, 1), (1, 1)), 1)]
    else:
        # whole allocate() runs: one search iteration with an arbitrary RNG.  Two iterations (122 000 paths, 48 min per instance) and three
        # mutually co-live ranges (> 15 min) were measured and left out: the step lemmas (hc_indices for every permutation, hc_search_step,
        # hc_fix_perm) carry the longer histories
        alloc_cases = [(tv, 1) for tv in (((0, 1), (1, 2), (0, 2)), ((0, 0), (0, 1), (1, 1)), ((0, 2), (0, 0), (2, 2)), ((0, 1), (0, 1)), ((0, 0), (0, 1)), ((0, 1), (1, 1)))]
    for tv, iters in alloc_cases:
        out.append(dict(key="hc_allocate/%s/it%d" % (tk(tv), iters), fn="hc_allocate",
                        params=dict(times=[list(t) for t in tv], aligns=[16, 64, 16][:len(tv)], iters=iters), weight=1000))
    for n in (1, 2, 3):
        for share in itertools.product(*[range(i + 1) for i in range(n)]):
            if all(share[share[i]] == share[i] for i in range(n)):  # points at an owner
                out.append(dict(key="linear/%d/%s" % (n, "".join(map(str, share))), fn="linear", params=dict(n=n, share=list(share))))
                if n >= 2:
                    for av in ((16, 64, 16), (64, 16, 128), (128, 128, 16)):
                        out.append(dict(key="linear/%d/%s/a%s" % (n, "".join(map(str, share)), "-".join(map(str, av[:n]))), fn="linear",
                                        params=dict(n=n, share=list(share), aligns=list(av[:n]))))
    out.append(dict(key="lr_alignment", fn="lr_alignment", params=dict(first=None, second=None)))
    out.append(dict(key="report", fn="report", params={}))
    for r in (1, 2, 3):
        out.append(dict(key="lr_sizes/%d" % r, fn="lr_sizes", params=dict(rank=r)))
    for n in (2, 3):
        out.append(dict(key="address_map/%d" % n, fn="address_map", params=dict(nsteps=n), weight=20))
    for shape in ("flat", "while", "nested2"):
        out.append(dict(key="lr_extract/%s" % shape, fn="lr_extract", params=dict(shape=shape)))
    from harness import c03

    for inst in c03.instances(tier, seed):
        if inst["fn"] == "ifm_fuse":
            out.append(dict(key=inst["key"], fn="ifm_fuse", params=inst["params"], weight=inst.get("weight", 1)))
        if inst["fn"] == "wbuf":
            out.append(dict(key="wbuf_lifetime/" + inst["key"], fn="wbuf_lifetime", params=inst["params"]))
        if inst["fn"] == "wbuf_live":
            out.append(dict(key=inst["key"], fn="wbuf_live", params=inst["params"]))
    for allocator in ("Greedy", "LinearAlloc", "HillClimb"):
        for alignment in (16, 64, 128):
            for tv in (((0, 1), (1, 2)), ((0, 0), (1, 1), (0, 1))):
                out.append(dict(key="dispatch/%s/a%d/%s" % (allocator, alignment, tk(tv)), fn="dispatch", params=dict(allocator=allocator, alignment=alignment, times=[list(t) for t in tv])))
    return out
