#!/bin/sh
# usage: tools/try_patch.sh <patch.diff> <PROP> [extra check args]   -- apply to /repo, run the check, always revert
P=$1; shift
git -C /repo apply "$P" || exit 9
trap 'git -C /repo checkout -- . ' EXIT
/verif/check "$@" --evidence /tmp/try_patch_evidence.json
echo "exit=$?"
