#!/usr/bin/env python3
"""regenerates /verif/MANIFEST.json from the tables below (single source of truth for the check registry)"""
import json
import os

ROOT = os.path.dirname(os.path.dirname(os.path.abspath(__file__)))

CLAIMED = {
    "C04": dict(
        text="Bounded solver verdict on the real wait-insertion code: generate_command_stream's op loop (get_wait_dependency, "
             "generate_cmd_waits, emitter) is executed symbolically for every DMA/kernel op-kind sequence up to length 6 "
             "(thorough 9) on U55 and U65 limits with an arbitrary conflict relation (free Boolean per op pair) and checked "
             "against a two-queue hardware monitor; a one-step inductive variant from arbitrary outstanding lists extends it to "
             "any history length; RangeSet/MemoryAccessSet conflict detection is shown equal to byte overlap for symbolic ranges; calc_blockdep stays in "
             "[0, MAX] and is 0 whenever the previous kernel reads SHRAM bytes (its lookup table) that the current kernel overwrites; the SHRAM bytes a "
             "kernel is declared to write cover the layout its block configuration uses; ArchitectureFeatures.get_ifm_block_size (the job input "
             "volume the BLOCKDEP analysis assumes) covers the receptive field of an OFM block per axis for symbolic kernels, strides and blocks (also through the real get_first_job_input_volume); "
             "address registers hold the operation's addresses at each NPU_OP word (what the wait analysis assumes), incl. bits 32..39. Added later: get_address_ranges_for_area (4 tiles) contains every byte of every element of the area; get_offset_block_coords numbers blocks depth/width/height; job j of the consumer is analysed at OFM block j // jobs_per_block (one job per block for depthwise/pooling/elementwise, IFM depth slices for convolutions) with the channels it reads (get_ifm_ofm_block_depth + get_first_job_input_volume); strided views keep their own footprint across calls. Round 7-8 additions: range_lists_overlap on lists with unused tiles; intersects() reports every pair of areas that share a byte (symbolic bases); re-targeted feature-map objects. Round 9 additions: the kernel the BLOCKDEP analysis works with is the operation's kernel (real to_kernel / to_npu_kernel on six symbolic fields; ifm_block obtains its kernel through to_kernel). Round 12: DMA source and destination lengths independent in dma_access.",
        note="Trusted: z3, symx proxies, the two-queue hardware model restated from the property, stubs replacing register "
             "generation/blockdep in layer 1. Outside: whether a non-zero BLOCKDEP is safe under NPU block timing; streams of compiled networks.",
        technique="dynamic symbolic execution of the real Python functions over z3 proxies (symx), bounded; counterexample replay",
        design="DESIGN.md §3 C04"),
    "C05": dict(
        text="Bounded solver verdict on the real allocators: HillClimbAllocator.allocate_indices for every permutation (= every value "
             "the RNG can produce) of n<=3 (thorough 4) live ranges over all time-interval vectors with symbolic sizes and mixed "
             "alignments; the search() publication rule as a one-iteration lemma; allocate() end to end with an arbitrary RNG for a "
             "bounded number of iterations; GreedyAllocator.alloc as an inductive step from an arbitrary sorted/disjoint state plus "
             "whole runs; linear allocation with sharing patterns; verify_allocation shown to reject exactly the overlapping placements; "
             "tensor_allocation.allocate() hands the requested alignment, iteration bound (symbolic, incl. 0) and memory limit to whichever allocator is selected; "
             "LiveRangeGraph keeps the strictest alignment requested. "
             "Oracle: own interval predicate (co-live => disjoint, aligned, total == / >= top). Added later: the requested CPU tensor alignment reaches every live range, including tensors of nested control-flow subgraphs (real extract_live_ranges_from_cascaded_passes, symbolic alignment); live ranges are only fused when the output really replaces the input (ifm_fuse); the weight buffer holding the last depth slice stays alive to the end of its operation (wbuf_lifetime). Round 7-8 additions: allocate_tensors' reported footprint is the sum of the kept allocations (report); TensorAddressMap histories (address_map); Tensor.storage_size on symbolic, possibly empty, shapes and after a widening rewrite (lr_sizes). Round 9 additions: symbolic tensor kind per range (CPU tensor, NPU-only tensor, operator-less buffer, each with the alignment it requests) through the real allocate()/verify_alignment; live-range fusion driven through the real merge_elementwise_op_ranges with symbolic memory area/type per tensor; every weight buffer's live range is marked and covers its operation's step (real extract_live_ranges_from_schedule / mark_usage).",
        note="Trusted: z3, symx proxies, stand-in tensor objects (LiveRange is the real class). Outside: more than 4 ranges in whole-run "
             "harnesses (step lemmas carry the unbounded part), the concrete pseudo-random sequence (all RNG values explored instead), "
             "Greedy over-reporting by less than one alignment unit is accepted (documented oracle decision).",
        technique="dynamic symbolic execution of the real Python functions over z3 proxies (symx), bounded; inductive step lemmas; counterexample replay",
        design="DESIGN.md §3 C05"),
    "C17": dict(
        text="Bounded solver verdict on the real driver-payload code: create_driver_payload is executed with a stream of SYMBOLIC length "
             "n in [0, 2^25] for each of the 6 accelerators, so one query family covers every length: COP1 tag, config action, config and "
             "id words against an independent product table, NOP padding to a 16-byte boundary, declared 24-bit length == n, total size, "
             "and VelaError exactly for n >= 2^24; plus word identity/little-endian order for symbolic 32-bit words (n <= 4) and the "
             "public npu_create_driver_payload entry; the generator's own 16 MiB guard (generate_command_stream with the commands of earlier operations "
             "abstracted to a symbolic word count) rejects exactly the streams of 2^22 words or more; two payloads built in one process (all 30 ordered accelerator "
             "pairs) each describe their own accelerator.",
        note="Trusted: z3, symx proxies, the struct.pack('<nI') model used in symbolic mode (replay uses the real struct), the product table "
             "(MACs/SHRAM per accelerator) restated from public Ethos-U data. Outside: command_stream tensors inside written files.",
        technique="dynamic symbolic execution of the real Python functions over z3 proxies (symx), symbolic stream length; counterexample replay",
        design="DESIGN.md §3 C17"),
    "C10": dict(
        text="Bounded solver verdict on the real stripe/padding chain: calc_padding_and_skirt / calc_explicit_padding / "
             "calc_upscaled_padding_and_skirt -> Box.transform_with_strides_and_skirt -> create_padding's rule, checked against the "
             "convolution receptive field as a sampling equivalence per (output row, kernel tap) for symbolic tensor height, kernel, pads "
             "and stripe [a,b) (SAME/VALID/EXPLICIT, stride 1..3, striped and un-striped, rows and columns, x2 upscaling coverage); "
             "get_ifm_area_required vs rows read; and the REAL generate_high_level_commands_for_sched_op run on a symbolic-height 2-op "
             "cascade (stand-in schedule objects): stripes partition the OFM, every row a consumer stripe reads has been produced and "
             "not yet overwritten in a rolling buffer of the height rolling_buffer_shape() gives; Scheduler.propose_minimal_schedule / "
             "propose_schedule_striping on operator chains with symbolic strides: producer stripes cover the consumer's stride and nearest-upscaling "
             "operators only get even stripe heights (the assumption of the x2 upscaling lemma). rows/cols also run with the operator reading a slice of a larger "
             "tensor (fused Split/StridedSlice: symbolic read offset and extent) and take the programmed pads from the REAL create_padding. Added later: transpose-convolution paddings through the real fixup_conv2d_backprop + add_padding_fields for symbolic kernels and sizes (strides 2x2 and 2x1 exact; stride 1x1 is a recorded finding); CascadeBuilder._is_cascadable never lets a transpose convolution or a tile-padded operator be striped; rolling_buffer_shape dimensions. Round 7-8 additions: Scheduler.apply_schedule twice on a real Tensor (apply_twice); the stripe input recorded by create_scheduler_info (stripe_input); restripe_buffers. Round 9 addition: kernel_conversion (to_npu_kernel / to_kernel keep every field). Round 12: area_required - the real get_ifm_area_required bounds the window's input rows/columns for all three resampling modes.",
        note="Trusted: z3, symx proxies, the hardware-side rule that the NPU derives the valid IFM extent from OFM size, kernel, stride "
             "and pads (DESIGN §3 C10), stand-in schedule objects. Bounds: H<=64 (thorough 4096), kernel<=8 (16), cascade height<=40, "
             "<=4 consumer / <=12 producer stripes. Outside: scheduler-chosen stripe sequences of real networks, exact pad semantics "
             "under upscaling, width striping. One recorded finding (stride-3 consumers) is reported as KNOWN-FINDING.",
        technique="dynamic symbolic execution of the real Python functions over z3 proxies (symx), bounded loops; reference receptive-field oracle; counterexample replay",
        design="DESIGN.md §3 C10"),
    "C09": dict(
        text="Bounded solver verdict on the real scale-quantisation code in IEEE-754 theory (no reals): quantise_scale over ALL positive "
             "normal float64 and float32 inputs in one symbolic query family (multiplier == TFLite reference multiplier, in [2^30,2^31], "
             "relative error <= 2^-31, shift == 31-exponent in [0,63], out-of-range degrades to a zero multiplier); the int16 reduction as "
             "pure integer arithmetic over every full pair; the average-pool pair for every window size (quick: 1..1024 + boundaries + "
             "sample, thorough: all 1..65536) decided for EVERY int8/uint8/int16 accumulator by an integer query; add/sub/mul derivations "
             "equal to the same derivation evaluated in double from the same (float32 or double) inputs, compositionally over the proven "
             "quantise_scale summary; operand selection; _prepare_scale_and_bias hands the reference per-channel scale to the full or (int16 IFM with int64 bias) the "
             "reduced quantisation; generate_scaling_for_elementwise uses the simplified Add/Sub derivation only for equal input scales and places either "
             "derivation's results in the OPA/OPB/OFM scale registers unchanged (operand swap under reversed operands). Added later: packed scale records are only reused for the same bias values and the same input and output scales (scale_cache_key); the exact average-pool divisor pair reaches the OFM_SCALE register through the real generate_ofm_scaling_for_pooling for a symbolic np.float32 / float64 / Python-float tensor scale (pool_register); the reduced int16 multiplier is exactly the reference reduction (m + 2^15) >> 16.",
        note="Trusted: z3 (FP/BV/LIA), symx float proxies with NumPy-2 (NEP 50) promotion, the TFLite QuantizeMultiplier definition "
             "restated as an integer formula. Assumptions: positive normal inputs in the main harness (other classes enumerated), negative "
             "exact ties of the pooling divisor may round either way, reduced form for shift >= 16. Outside: MUL reference precision, "
             "log2 paths for int16 sigmoid/tanh. One recorded finding (int16 windows > 32768) is reported as KNOWN-FINDING.",
        technique="dynamic symbolic execution of the real Python functions over z3 FP/BV/Int proxies (symx); compositional summaries; counterexample replay",
        design="DESIGN.md §3 C09"),
    "C19": dict(
        text="Bounded solver verdict on the real compile-time fixed-point code, in the bit-vector theory: every fp_math helper "
             "(saturating_rounding_mul32/16, saturating_mul16, shift_left32/16, rounding_divide_by_pot, saturating_rounding_multiply_by_pot, "
             "rescale, downscale_multiplier) against the gemmlowp/TFLite reference over the WHOLE int32/int16 operand domain, for each "
             "operand type that reaches it (Python int, np.int64, np.int32, np.int16, np.int8 - NumPy wrap-around and NEP-50 OverflowError "
             "semantics modelled and validated differentially); multiply_by_quantized_multiplier, exp_on_interval and exp_on_negative_values "
             "compositionally (proven leaf multiply as a shared uninterpreted function with its magnitude lemma); each entry of the "
             "leaky-ReLU/PReLU table and each folded Quantize constant against the TFLite reference arithmetic for symbolic multipliers, "
             "zero points and alpha; each checked entry of the hard-swish table against the TFLite reference recipe (both multipliers symbolic where the "
             "entry saturates or shifts are small; one multiplier symbolic and the other enumerated in the realistic unsaturated regime); the "
             "scale handed to quantise_scale by the Quantize folding; the function tabulated for tanh/sigmoid; two lookup tables share an "
             "equivalence id (one copy in the constants region) exactly when all their values are equal (hash() modelled for ints/tuples); the 256-entry "
             "softmax exp table against TFLite's preparation (input radius, rescale, exp_on_negative_values; leaves as shared uninterpreted functions); the rounding "
             "wrapper of convert_to_lut8 / create_lut_8bit_op for ANY function value (IEEE float queries decided by a fresh non-incremental solver; output scale enumerated). Added later: Max(x, Mul(x, c)) in either operand order becomes a LeakyReLU/Abs only when input, Mul output and Max output are quantised identically (quantisation equalities as free Booleans); for power-of-two output scales and function values on the 2^-20 grid (ties excluded) the 8-bit table entry is exactly the saturated nearest integer - which pins the precision the quotient is computed in. Round 7-8 additions: tie-inclusive exact table entries (reference order round-then-add-zero-point); multiply_by_quantized_multiplier against an exact reference when it bypasses the doubling-high-multiply leaf. Round 10 addition: exp_interval_exact - the exp polynomial with the exact (not abstracted) 32x32 multiply on a 10-bit operand family per shift.",
        note="Trusted: z3 (BV/UF), symx NumPy-scalar proxies (differentially validated by symx.selfcheck), gemmlowp/TFLite definitions "
             "restated on bit-vectors. Quick tier abstracts the 32x32 product of srm32 to a shared uninterpreted function (exact multiplier "
             "in thorough). Outside: the values of sigmoid/tanh/exp tables built from math.tanh/exp (transcendental; the tabulated function is observed "
             "instead), int16 interpolation tables, hard-swish entries with BOTH multipliers symbolic in the unsaturated regime (the solver does not "
             "finish; covered with one multiplier enumerated).",
        technique="dynamic symbolic execution of the real Python functions over z3 bit-vector proxies (symx); compositional uninterpreted-function summaries; counterexample replay",
        design="DESIGN.md §3 C19"),
    "C18": dict(
        text="Bounded solver-guided exhaustive exploration of the real configuration code: ArchitectureFeatures._read_config (recursion "
             "included) on every section graph of up to 4 sections (existence, inherit target later/self/missing, option presence) against "
             "the documented child-over-parent rule and error cases; the real _get_vela_config with symbolic system ports, memory-mode areas "
             "in child and parent, and a symbolic arena cache size in child/parent/CLI (defaults, CLI override, Sram->OnChipFlash remap, every "
             "validation error); missing sections vs internal-default; the real vela.main() driven up to the construction of the architecture "
             "object for all combinations of --config kinds / --system-config / --memory-mode with the file system answered by a symbolic Boolean "
             "(Dir/file.ini resolved to the bundled directory - absolute, with main() started from a different working directory than the import - and that "
             "path handed on, unreadable file rejected, selections never replaced); and "
             "the value main() hands over when --arena-cache-size is absent, extracted from main()'s AST on every run; an architecture object built with the internal "
             "defaults equals, option for option, one built from the sections of Arm/vela.ini that OPTIONS.md names for them; an internal exception "
             "(KeyError ...) on a legal file counts as a violation. Added later: `python -m ethosu.vela` exits with main()'s (symbolic) status; --list-config-files names exactly the bundled Dir/file.ini files for every existence pattern of candidate files. Round 8 addition: the per-region limits follow the memory mode's meaning of arena_cache_size (regions).",
        note="Trusted: z3, symx proxies, the ConfigParser stand-in (has_section/has_option/get), OPTIONS.md as the source of the rules. "
             "Outside: the file system itself and INI parsing, inherit cycles of length >= 2. "
             "Two recorded findings (CLI default shadows the file; the i.MX93 internal default is the High-End system configuration) are reported as KNOWN-FINDING.",
        technique="dynamic symbolic execution of the real Python functions over z3 proxies (symx), all feasible paths within the bound; AST extraction of the CLI binding; counterexample replay",
        design="DESIGN.md §3 C18"),
    "C15": dict(
        text="Bounded solver verdict on the real block-configuration code: try_block_config (with _try_block_config, _get_ifm_blocksize, "
             "_required_size, _ifm_blockdepth, fit_block_for_ofm, _acc_type, _ew_usage) for the 6 accelerators on a symbolic block depth, IFM "
             "depth and OFM shape with enumerated block (h,w), kernels, strides, op kinds, bit depths, LUT use, scalar/broadcast, upscaling: an "
             "accepted block is a positive micro-block multiple within the maximum and its SHRAM layout is ordered, inside the bank count, with "
             "IFM / IFM2 / accumulator partitions each double-buffering the required block at its bank granule (independent restatement of the "
             "shared-buffer rules incl. the 1-D optimisation); invalid blocks are rejected; for every operation description the argument "
             "derivation of api.npu_find_block_configs implies acceptance under get_arch_block_config's derivation (symbolic block depth); "
             "find_block_config's results re-validate; the query/generator agreement also for operations whose IFM and OFM precision differ. Added later: IFM height/width independent of the OFM's; x2 TRANSPOSE resampling layouts for even and odd kernels; the configuration the scheduler selects (SchedulerOperation._get_block_config) re-validates with the generator's description of the operation, keeping the lookup table's banks free. Round 7-8 additions: liveness (one micro-block is always accepted); the kernel description the generator uses for the layout (generator_kernel). Round 10 addition: generator_args (same lemma as C06 layout_args).",
        note="Trusted: z3, symx proxies, the per-accelerator constants (micro-block, banks, granules) restated in the harness, my reading "
             "of the SHRAM double-buffering rule. Quick tier samples 260 of the enumerated layout combinations per accelerator by seed "
             "(thorough: all). Outside: part-kernel choice agreement with the weight encoder, cost-based candidate choice.",
        technique="dynamic symbolic execution of the real Python functions over z3 proxies (symx), bounded; restated SHRAM-rule oracle; counterexample replay",
        design="DESIGN.md §3 C15"),
    "C06": dict(
        text="Bounded solver verdict on the real register-level generator through its public entry point: generate_register_command_stream on "
             "two-operation lists whose operations share a template (conv with 1 or 2 cores, depthwise, pooling, elementwise, DMA) and "
             "differ in a group of symbolic or enumerated, independent fields (40-bit base addresses, weight/scale ranges incl. fewer ranges than cores, "
             "tiles, zero points, pads, regions, kernel size/stride/dilation/traversal, data types/layouts/rounding/upscaling (precision words), "
             "feature-map shapes with default strides of both layouts, explicit strides, activation function/clamp/LUT index, pooling and elementwise "
             "sub-operation, IFM2 address/broadcast/scalar/operand order, explicit OFM/OPA/OPB scaling, DMA source/destination/length/regions/channel/mode), so that every register of the group holds an arbitrary previous value "
             "when the second operation is generated. A reference decoder tracks the register file over the emitted words and at each NPU_OP "
             "word requires every direct register to hold that operation's value - written or elided - including address/shift bits in the "
             "command parameter, with no truncation; KERNEL_WAIT/DMA_WAIT words precede the operation they guard on sequences of 3-4 operations (C04's monitor); alignment/length errors exactly when the hardware rule is broken; one op word per "
             "operation; exactly one STOP as the last word. Added later: the SHRAM bytes a kernel operation declares as written (what decides its waits) cover its block configuration's layout on every accelerator (shram_writes). Round 8 addition: the kernel the generator hands to the SHRAM layout computation is the operation's own (layout_kernel). Round 10 addition: layout_args - every argument get_arch_block_config hands to try_block_config (scaled, uses_scalar, LUT banks, bits, IFM2 shape) follows the operation, for symbolic quantisation / operand kind / activation / precision.",
        note="Trusted: z3, symx proxies, my reference register map/decoder (cmd0 = 16-bit parameter, cmd1 = 32-bit payload + parameter bits). "
             "calc_blockdep is stubbed to 0 (C04) and the tile group runs with empty access sets. Outside: lists longer than two operations "
             "(covered per register by the arbitrary-previous-value argument), cross-group elision coupling, SHRAM-layout registers "
             "(C15) and BLOCKDEP (C04), float-derived scaling registers (C09), compiled-network streams. The kernel/shape groups use the template's SHRAM layout.",
        technique="dynamic symbolic execution of the real Python functions over z3 proxies (symx), bounded; reference decoder; counterexample replay",
        design="DESIGN.md §3 C06"),
    "C08": dict(
        text="Bounded solver verdict on the real weight/scale encoder bookkeeping: encode_weight_and_scale_tensor is executed with the C "
             "codec replaced by a stub returning a stream of SYMBOLIC length (any multiple of 16) that records the channels it is given: for "
             "1 and 2 cores and a set of depth slicings, every output channel of every slice is encoded by exactly one core (scale records "
             "and de-interleaved weights agree), encoded ranges are aligned, ordered and disjoint, scale_bytes == 10 per channel, the recorded "
             "double-buffer sizes bound every slice assigned to that buffer, and the REAL create_dma_op / create_weights arithmetic for a "
             "buffered slice stays inside a buffer of that size with equal source/destination lengths; a second encode request with a "
             "different slicing gets a tensor describing its own slices (cache key); encode_bias packs the 80-bit record for every signed "
             "40-bit bias / 32-bit scale / 6-bit shift and rejects out-of-range arguments; create_weights in its four tensor configurations (direct/buffered "
             "weights x combined/stand-alone scales) with symbolic encoded ranges names the region and bytes of the tensor that holds them; the arguments "
             "handed to the C codec (dilation axes, bit depth, traversal) per accelerator; the REAL Scheduler.propose_weight_buffering over symbolic "
             "per-slice byte counts: every depth slice fits the SRAM buffer it is DMA-ed into and weight and scale tensors describe the recorded slices; the "
             "(multiplier, shift) of each scale record is the reference quantisation of the reference per-channel scale (C09's prep_scales and qs lemmas). Added later: a request that differs from a cached one in any codec input (values of a clone with the same equivalence id, dilation, block depth, depth offsets, block type) is encoded afresh, and one that differs in bias values, IFM scale or OFM scale (symbolic floats) derives and packs its own scale records; a core without a stream of its own is programmed with length 0 (idle_core); serialise_npu_subgraph_into_tensors writes every operation's weight stream and scale records to the constant tensor at their addresses, for every sharing pattern of 2..4 operations. Round 7-8 additions: 40-bit bias packing through int.to_bytes-style code (bit-vector exact); the reduced int16 multiplier; a rewrite that changes weight values refreshes value_id (rewrite_value_id). Round 9 addition: the real max_range_bytes() / double_buffer_size() bound every slice's extent (all cores' ranges with alignment). Round 12: consumer stand-ins use the real Operation quantisation getters with a forced-or-own choice.",
        note="Partial by design: the byte content of the compressed streams (C codec, C07) is outside; what is decided is the index/offset/"
             "length bookkeeping around it. Trusted: z3, symx proxies, length-only byte-stream stand-ins. Assumes intermediate slice boundaries "
             "are multiples of the core count (established by propose_weight_buffering).",
        technique="dynamic symbolic execution of the real Python functions over z3 proxies (symx) with the C codec stubbed to symbolic-length streams; counterexample replay",
        design="DESIGN.md §3 C08"),
    "C02": dict(
        text="Bounded solver verdict on the real address-generation kernels (a lemma set, not the end-to-end property): for a feature map with "
             "symbolic height, tile split, base addresses and element coordinate (NHWC/NHCWB16, enumerated width/depth/element size) the byte "
             "the hardware tile/stride rule addresses equals get_address() and lies inside an address range get_address_ranges() declares; "
             "check_mem_limits raises exactly when a declared range leaves its region or names an unknown region; a real Tensor used as a "
             "rolling buffer addresses every row of a stripe's box, through the tiles addresses_for_rolling_buffer returns, at slot "
             "(row mod buffer height) inside its storage; _avoid_nhcwb16_for_shapes keeps the brick format only when every producer/consumer shape "
             "equals the tensor's; get_region/mem_type_size/get_mem_limits_for_regions give fast scratch its own, "
             "arena_cache_size-limited region exactly when spilling is enabled and region 0 only to permanent memory types; create_feature_map's strides "
             "stay inside the tensor; the scheduler's rolling-buffer size equals the live range; weight/scale ranges name the region of the tensor that "
             "holds them (create_weights, four configurations); an operation with fewer weight ranges than cores programs length 0 for the idle core; every "
             "weight depth slice fits the SRAM buffer propose_weight_buffering creates for it; a slice's weight DMA reads exactly that slice; rolling_buffer_shape is as wide "
             "as the producer writes and the consumer reads. The remaining weight/DMA address arithmetic is decided under C08. Added later: the tile-padding re-pointing of the four tiles (modify_tile_addresses_for_padding) replicates the edge element inside the tensor; check_format_restrictions keeps the brick format only when every producer and consumer can address bricks (no DMA copy on either side, aligned depth offsets, equal view shapes); a strided view's elements lie inside the ranges get_address_ranges declares, also after an identical dense feature map was analysed in the same process. Round 7-8 additions: the KERNEL_* registers carry the operation's kernel (programmed_kernel); SRAM weight buffers of a re-striped schedule are sized from the re-encoded weights (restripe_buffers); a re-targeted feature-map object is analysed with its new addresses. Round 9 addition: resize_lowering - the real convert_resize_to_upscale_and_average_pool on symbolic height/width: per stage the rows/columns the NPU derives from OFM size, kernel and padding are exactly the x2-upscaled input; depthwise selection kernel of the align_corners nearest-neighbour case has one sample per channel.",
        note="Partial: the composition allocator address + footprint <= published region sizes over a compiled network is outside (no "
             "end-to-end compilation in this technique); graph-level format decisions are outside. Trusted: z3, symx proxies, the tile/stride "
             "addressing rule restated in the harness.",
        technique="dynamic symbolic execution of the real Python functions over z3 proxies (symx), bounded; restated addressing-rule oracle; counterexample replay",
        design="DESIGN.md §3 C02"),
    "C03": dict(
        text="Bounded solver-guided verdict on the mechanisms that decide which memory an operation reads (a lemma set): the REAL "
             "lut.optimize_high_level_cmd_stream over every history of up to 3 (thorough 4) LUT-using operations (table size, equal-to-earlier "
             "or new values, clobbering non-LUT stripes on 16-bank configurations) against a byte-owner model of the SHRAM LUT window: every "
             "operation's lut_index points at bytes holding exactly its table; the REAL stripe generator on a symbolic-height 2-op cascade: "
             "rows a consumer stripe reads have been produced and not yet overwritten in the rolling buffer (C10 cascade lemma); the bytes "
             "BufferMap.get_buffer budgets for a rolling buffer equal the live range extract_live_ranges_from_schedule reserves (symbolic stripe "
             "heights, mixed dtypes); CascadeBuilder.build_cascades called twice records each call's own rolling buffer; weight "
             "double buffering: slice k uses buffer k mod n with its DMA before its stripe, and the buffer whose live range "
             "extract_live_ranges_from_schedule keeps to the end (expression taken from its AST) is the one the last slice uses; double_buffer_sizes "
             "bound every (all cores') slice assigned to that buffer and propose_weight_buffering's buffers hold every slice DMA-ed into them; a "
             "feature-map copy is elided only when source and destination are the same bytes. Added later: an elementwise/copy output takes over an input's bytes only when its consumer list is exactly that operation (real _get_ifm_to_fuse, lazily decided symbolic graph facts); no brick format around a DMA copy (format_rules); the generator emits the table DMA in front of every row group of a LUT operation (lut_dma); rolling_buffer_shape covers width, bricks and rows (rolling_dims). Round 8 additions: stand-alone scale tensors are read from their own region (weight_ranges); table-clobbering stripes of any block type on 16-bank parts. Round 9 additions: wbuf_live (every SRAM weight buffer alive at its operation's step, pre-buffered ones a step earlier, the last-slice buffer to the end) and arena-aware live-range fusion (ifm_fuse).",
        note="Partial: per-byte last-writer tracking over emitted streams of compiled networks, live-range extraction and buffer sizing wiring "
             "over real schedules are outside. Trusted: z3, symx proxies, stand-in schedule/tensor objects, the SHRAM LUT window model. The "
             "recorded stride-3 rolling-buffer finding is reported as KNOWN-FINDING.",
        technique="dynamic symbolic execution of the real Python functions over z3 proxies (symx), all feasible paths within the bound; counterexample replay",
        design="DESIGN.md §3 C03"),
    "C16": dict(
        text="Bounded solver verdict on the placement decision and the documented constraints (a lemma set): for every internal operator type with a "
             "TFLite name, the REAL decision chain (tflite_semantic_checker, rewrite_graph_pre_order with supported_operator_check, "
             "is_operator_semantic_valid, is_operator_supported) on a one-operator graph in which the verdict of every constraint function is a free "
             "Boolean: run_on_npu is true exactly when all constraints hold that the REAL report generator (generate_supported_ops, run on the "
             "current tree) lists for that operator - generic ones minus the bracketed exclusions plus the operator's own section - and an operator "
             "missing from the report's table is never placed on the NPU; and, one constraint at a time, the real constraint function on a stand-in "
             "operator with SYMBOLIC dimensions, strides, kernel sizes, dilations, axes, permutations, masks equals the predicate restated from the "
             "sentence the report prints for it, with the numeric limits read from the generated report text (stride, dilated kernel, filter, "
             "tensor dimension, batch, broadcast, depth multiplier, transpose convolution strides and shapes, resize scaling, half pixel centres, "
             "arg max, mean products/width/depth/axes, pad shape, strided slice strides and ranges, transpose permutations, concatenation axis and "
             "dimensions, split axis and divisibility, convolution groups, matching shapes). Round 9 addition: 25 further single-sentence constraints (c_simple) with type/operator lists read from the generated report 13 constraints about facts (c_facts) 9 LSTM structure constraints (c_lstm) and the FULLY_CONNECTED 2D view (c_fc_2d): 105 of 109 constraint functions decided individually. Round 7-8 additions: 12 element-type constraints over all type combinations; rewrites that follow the check in the same list never see a rejected operator; fixup_pool_strides only rewrites single-window pools; the 40-bit bias constraint equals the signed range of the scale record; fuse_activation_function_with_prev never touches an operator that stays on the CPU. Round 9 addition: cpu_operands - real reader step (parse_operator) then real writer preparation (TFLiteSerialiser.__init__) for every operator kind: the operands to be written are the operands read.",
        note="Partial: what happens to the operator after the decision (graph rewriting, pass packing, subgraph extraction) is outside, as are "
             "constraints on tensor values (weight sums, 40-bit bias, quantisation scales), LSTM structure constraints and TOSA. The committed "
             "SUPPORTED_OPS.md is not the oracle (it is older than the code); the property speaks of the report Vela generates. Trusted: z3, symx "
             "proxies, the restated predicates (informal sentences: the reading is stated next to the predicate).",
        technique="dynamic symbolic execution of the real Python functions over z3 proxies (symx), bounded; constraint verdicts as free Booleans; counterexample replay",
        design="DESIGN.md §3 C16"),
    "C13": dict(
        text="Bounded solver verdict on kernels where an internal exception is an arithmetic event (a lemma set, not totality of the driver): the REAL "
             "Scheduler.propose_operator_buffering with the memory snapshot holding NumPy fixed-width values of the element type the live "
             "LiveRangeGraph.get_temporal_memory_usage produces, for a symbolic staging limit (0..2^33; the scheduler itself passes 1 << 32), reference "
             "usage and time index: no OverflowError/ArithmeticError under NumPy >= 2 promotion (the package declares an unpinned numpy) and slack == "
             "limit - usage; placement constraint functions (resize incl. align_corners / half_pixel_centers, strides, broadcast, batch, matching "
             "shapes, transpose convolution) return a verdict - never raise - for every operator geometry with positive dimensions, so an operator "
             "that cannot be accelerated stays on the CPU instead of ending the compilation; vela.main() turns every VelaError subclass raised "
             "below it into a console message and a non-zero status and lets nothing escape. Round 7-8 additions: scale constraints on scalar and per-axis scale representations; main() with every way of naming a configuration file (internal exceptions are violations); rewrite_mark_tensor_purpose over shared constants; TFLiteSerialiser.serialise_tensor for every rank and element type. Round 9 additions: fold_disconnect (SHAPE / QUANTIZE constant folding with a symbolic consumer list incl. the subgraph-output marker), t_per_axis (array-valued scale/zero point never reach scalar comparisons), t_resize_lowering (resize lowering ends without an internal exception), tensor_types_total (real parse_tensor for every element type of the schema; known finding: INT4 constants).",
        note="Partial: totality of reader, graph optimiser, scheduler search, allocator and writer over all models and option combinations is outside "
             "(no bounded encoding of 'all models'). Trusted: z3, symx NumPy proxies (NEP 50 promotion, validated against the installed NumPy in every run).",
        technique="dynamic symbolic execution of the real Python functions over z3 proxies (symx) incl. NumPy fixed-width/Python int promotion semantics, bounded; counterexample replay",
        design="DESIGN.md §3 C13"),
    "C14": dict(
        text="Bounded solver verdict on the mechanisms the property names (a lemma set, not byte identity of output files): the REAL "
             "HillClimbAllocator.allocate() with the random module replaced by a recording stand-in whose draws are symbolic until seeded - every draw "
             "of the search comes after random.seed(1), so the placement does not depend on what used the generator before; `vela NETWORK` with default "
             "options, convert() and convert_bytes() hand the same architecture arguments, tensor allocator, optimisation strategy and SRAM target to "
             "the compiler (constructors replaced by recorders); and second-use-in-one-process lemmas that run the real code twice: driver payloads "
             "for every ordered accelerator pair, CascadeBuilder.build_cascades twice, the weight and scale encoding caches (a request that differs "
             "in one codec input or in bias values / IFM scale / OFM scale is encoded afresh; an identical one is served from the cache), lookup-table "
             "equivalence ids (equal iff equal contents, symbolic entries), address ranges of a strided view analysed after an identical dense one. Round 8 additions: module-level generator objects are intercepted as well; the operator-code table is the same for every iteration order of the set it is built from (symbolic permutation); the same allocation twice in one process. Round 11 addition: debug_db_twice - the real DebugDatabase filled for network A, cleaned by clean_db(), filled for B: B's four tables equal those of B alone (ids restart at 0).",
        note="Partial: byte identity of written models and summaries, PYTHONHASHSEED-dependent iteration orders, DebugDatabase / TensorAddressMap "
             "contents across compilations are outside. Trusted: z3, symx proxies; readers, compiler driver and writers are stubs in the entry-point lemma.",
        technique="dynamic symbolic execution of the real Python functions over z3 proxies (symx), bounded; symbolic generator pre-state; run-twice lemmas; counterexample replay",
        design="DESIGN.md §3 C14"),
}

NOT_APPLICABLE = {
    "C01": "end-to-end functional equivalence needs the whole compiler plus an executable NPU semantics; not encodable for a solver within reach (DESIGN §5)",
    "C07": "the weight codec is C (mlw_encode.c); no C symbolic engine (CBMC/KLEE) in the sandbox and CrossHair realises at the extension boundary (DESIGN §5)",
    "C11": "flatbuffer (de)serialisation and graph partitioning: object graphs and byte buffers realised at the flatbuffers/NumPy boundary, nothing arithmetic to quantify over (DESIGN §5)",
    "C12": "needs the written output file (OfflineMemoryAllocation metadata, tensor table) and summary CSV of whole compilations; the writer block that builds the metadata is not separable from the flatbuffer serialiser. Its arithmetic ingredients (non-overlap and alignment of co-live ranges, alignment reaching nested subgraphs, reported footprint = sum of allocations, address bookkeeping) are decided under C05 (DESIGN §5)",
}

PENDING = {}  # id -> reason, for properties planned but whose check is not yet registered


def main():
    props = [json.loads(l)["id"] for l in open(os.path.join(ROOT, "properties.jsonl"))]
    checks = []
    for pid in props:
        if pid in CLAIMED:
            c = CLAIMED[pid]
            checks.append({
                "property_id": pid,
                "quick_cmd": "./check %s --tier quick" % pid,
                "thorough_cmd": "./check %s --tier thorough" % pid,
                "evidence_file": "/verif/evidence/%s.json" % pid,
                "replay_cmd_template": "./check %s --replay {path}" % pid,
                "engine": "symx",
                "level_claimed": {"category": "other", "text": c["text"], "design_ref": c["design"]},
                "level_note": c["note"],
                "technique": c["technique"],
            })
    na = []
    for pid in props:
        if pid in CLAIMED:
            continue
        reason = NOT_APPLICABLE.get(pid) or PENDING.get(pid) or "solver-based check planned in DESIGN.md §3 but not yet built and validated in this round; not claimed until it is"
        na.append({"property_id": pid, "reason": reason})
    m = {
        "version": 1,
        "setup_cmd": "./setup.sh",
        "hooks": {
            "guard": "ETHOS_U_VELA_VERIF",
            "enable": "none needed: all instrumentation is namespace injection from the harness side (no source hooks in /repo)",
            "baseline_off_cmd": "cd /repo && /venv/bin/python -m pytest -ra -q -p no:cacheprovider --timeout=900 --continue-on-collection-errors",
            "source_commits": [],
            "add_only": True,
        },
        "engines": [
            {"name": "symx", "path": "/verif/symx", "serves_properties": sorted(CLAIMED),
             "kind_free_text": "dynamic symbolic executor for the repository's own Python function objects: z3-backed proxies "
                               "(int, NumPy fixed-width ints, IEEE floats), DART-style path exploration, solver verdict per path, "
                               "counterexample replay on unpatched code"},
        ],
        "checks": checks,
        "not_applicable": na,
        "notes": "Technique family: solver-based checking of the real code. Exit codes of ./check: 0 held, 1 VIOLATION (replayed), "
                 "2 inconclusive, 3 harness error. Known findings: /verif/known_findings.json. Seeded changes used to test the "
                 "checks: /verif/seeded/.",
    }
    json.dump(m, open(os.path.join(ROOT, "MANIFEST.json"), "w"), indent=1)
    print("MANIFEST.json: %d checks, %d not_applicable" % (len(checks), len(na)))


if __name__ == "__main__":
    main()
