#!/bin/sh
# runs every thorough command once, one after the other, and prints one line per property (used from `vp run`)
cd "$(dirname "$0")/.." || exit 9
for p in C13 C17 C16 C14 C08 C02 C03 C10 C09 C18 C06 C04 C15 C05 C19; do
  s=$(date +%s)
  ./check $p --tier thorough > /tmp/thorough_$$_$p.log 2>&1
  rc=$?
  echo "$p rc=$rc wall=$(( $(date +%s) - s ))s $(grep -E "tier=thorough" /tmp/thorough_$$_$p.log | cut -c1-200)"
  grep -E "VIOLATION|HARNESS-ERROR|INCONCLUSIVE" /tmp/thorough_$$_$p.log | cut -c1-300 | head -5
  rm -f /tmp/thorough_$$_$p.log
done
