#!/bin/sh
# usage: tools/try_patch.sh <abs patch.diff> <PROP> [extra check args]   -- apply to /repo, run the check, always revert
P=$1; shift
git -C /repo apply "$P" || exit 9
trap 'git -C /repo checkout -- . ' EXIT INT TERM HUP PIPE
/verif/check "$@" --evidence /tmp/try_patch_evidence.json > /tmp/try_patch.out 2>&1
rc=$?
git -C /repo checkout -- .
grep -E "VIOLATION|KNOWN-FINDING|tier=|HARNESS-ERROR|INCONCLUSIVE" /tmp/try_patch.out | cut -c1-400 | head -${TRY_LINES:-6}
echo "exit=$rc"
