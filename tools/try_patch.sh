#!/bin/sh
# usage: tools/try_patch.sh <abs patch.diff> <PROP> [extra check args]
# tries a seeded change in a scratch worktree of /repo (removed afterwards); /repo itself is not touched, so trials can run in parallel
P=$1; shift
ROOT="$(cd "$(dirname "$0")/.." && pwd)"
W=$(mktemp -d /tmp/trypatch.XXXXXX); rmdir $W
git -C /repo worktree add -q --detach $W HEAD || exit 9
trap 'git -C /repo worktree remove --force '$W' 2>/dev/null; git -C /repo worktree prune' EXIT INT TERM HUP PIPE
cp /repo/ethosu/*.so $W/ethosu/ 2>/dev/null
git -C /repo diff | git -C $W apply 2>/dev/null   # carry over uncommitted changes of /repo (normally none)
git -C $W apply "$P" || exit 9
VERIF_REPO=$W "$ROOT/check" "$@" --evidence $W.evidence.json > $W.out 2>&1
rc=$?
grep -E "VIOLATION|KNOWN-FINDING|tier=|HARNESS-ERROR|INCONCLUSIVE" $W.out | cut -c1-400 | head -${TRY_LINES:-6}
rm -f $W.out $W.evidence.json
echo "exit=$rc"
