"""C19 - compile-time fixed-point maths and integer lookup tables match their reference functions.

kernels : fp_math leaf helpers == gemmlowp / TFLite reference over the WHOLE int32 / int16 operand domain (bit-vectors, no
          sampling), for each operand type that reaches them (Python int, np.int64, np.int32, np.int16, np.int8).
mbqm    : multiply_by_quantized_multiplier == TFLite MultiplyByQuantizedMultiplier (compositional over the proven leaf).
exp     : exp_on_interval... / exp_on_negative_values == gemmlowp structure (compositional, leaf as uninterpreted function).
tables  : leaky-ReLU / requantise table entries == reference kernel arithmetic for symbolic quantisation parameters.
"""
import numpy as np
import z3

from symx import core, npint, fp
from symx.core import SInt, SBool, L, B
from symx.npint import SNp

EXPLANATION = "C19: fp_math helpers vs gemmlowp references over full operand domains and operand types; integer LUT bodies."
SHIMS = ["fp_math.np -> intXX constructors / iinfo that understand proxies (symx.npint.SNUMPY)",
         "composite harnesses: fp_math.saturating_rounding_mul32 -> uninterpreted function shared with the reference"]
ASSUMPTIONS = [
    "operand domain of each helper = the C type of the gemmlowp original (int32 for *32 helpers, int16 for *16 helpers); "
    "exponents/shifts 0..31 enumerated",
    "operand types: Python int and the NumPy scalar types that reach the helpers from optimise_quantize, convert_lrelu_to_lut, "
    "convert_hardswish_to_lut, softmax.py and lut.py (np.int64 from model zero points, np.int8/16 from constant tensors with Python-int "
    "zero points, np.int16/np.int32 produced by the helpers themselves)",
    "results are compared as mathematical integers (the NumPy result type is not part of the claim)",
]
OUTSIDE = ["sigmoid/tanh/exp tables built from math.tanh/math.exp (transcendental functions are outside SMT)",
           "create_lut_int16_op interpolation tables"]
BOUNDS = {"quick": {"kernels": "full int32/int16 operand domain, shifts from a boundary set, operand types pyint/int64/int32/int16/int8; "
                               "srm32 with the 32x32 product abstracted to a shared uninterpreted function",
                    "mbqm": "x in the int8/int16 difference domain, multiplier in [2^30, 2^31), 7 shifts", "exp": "exp_on_interval only"},
          "thorough": {"kernels": "all shifts 0..31, srm32 with the exact bit-blasted multiplier, srm32 magnitude lemma",
                       "mbqm": "shifts 20..49", "exp": "exp_on_negative_values structure for all 128 quarter-unit bands of the int32 domain x 3 operand types; full composition for 13 bands"}}

I32MIN, I32MAX = -(1 << 31), (1 << 31) - 1
I16MIN, I16MAX = -(1 << 15), (1 << 15) - 1
TYPES = ["pyint", "int64", "int32", "int16", "int8"]


def ENCODED():
    import ethosu.vela.fp_math as m

    return [m.saturating_rounding_mul32, m.saturating_rounding_mul16, m.saturating_mul16, m.shift_left32, m.shift_left16,
            m.downscale_multiplier_int32_to_int16, m.rounding_divide_by_pot, m.saturating_rounding_multiply_by_pot, m.rescale,
            m.multiply_by_quantized_multiplier, m.exp_on_interval_between_negative_one_quarter_and_0_excl, m.exp_on_negative_values]


def _shims():
    import ethosu.vela.fp_math as m

    return ((m, {"np": npint.SNUMPY, "int": npint.sint_shim}),)


def _operand(V, name, typ, lo, hi):
    """operand of the given Python/NumPy type restricted to [lo, hi]; returns (value for the code, W-bit vector of its value)"""
    if typ == "pyint":
        v = V.extra("big", name, lo, hi)
        return v, npint.wide(v)
    x = V.extra("np", name, typ)
    bits = {"int64": 64, "int32": 32, "int16": 16, "int8": 8}[typ]
    tlo, thi = -(1 << (bits - 1)), (1 << (bits - 1)) - 1
    if V.symbolic:
        if lo > tlo:
            V.assume(x.bv >= lo)
        if hi < thi:
            V.assume(x.bv <= hi)
        return x, npint.wide(x)
    if not (max(lo, tlo) <= int(x) <= min(hi, thi)):
        raise core.PathAbort("replay value outside range")
    return x, npint.wide(x)


_SRMF = {}


def _SRM(a, b):
    w = npint.W
    if w not in _SRMF:
        _SRMF[w] = z3.Function("SRDHM32_%d" % w, z3.BitVecSort(w), z3.BitVecSort(w), z3.BitVecSort(w))
    return _SRMF[w](a, b)


class _width:
    """run a harness body with Python ints / comparison vectors of the given width (sound: SBig refuses to exceed it)"""

    def __init__(self, w):
        self.w = w

    def __enter__(self):
        self.saved = npint.W
        npint.W = self.w

    def __exit__(self, *a):
        npint.W = self.saved


def _res(x):
    """result of the code -> W-bit vector of its mathematical value"""
    return npint.wide(x)


def _c(v):
    return z3.BitVecVal(v, npint.W)


def _lo(x, bits):
    return z3.Extract(bits - 1, 0, x) if x.size() > bits else x


def _sx(x):
    return z3.SignExt(npint.W - x.size(), x) if x.size() < npint.W else x


# ---- references (gemmlowp fixedpoint.h / TFLite common.h) on bit-vectors wide enough never to wrap


def ref_srdhm(a, b, bits=32):
    """SaturatingRoundingDoublingHighMul on `bits`-wide operands given as W-bit vectors; product formed at 2*bits like the C code"""
    mn, mx = -(1 << (bits - 1)), (1 << (bits - 1)) - 1
    w2 = 2 * bits
    ab = npint.bvmul(_lo(a, w2), _lo(b, w2))
    nudge = z3.If(ab >= 0, z3.BitVecVal(1 << (bits - 2), w2), z3.BitVecVal(1 - (1 << (bits - 2)), w2))
    q = (ab + nudge) / z3.BitVecVal(1 << (bits - 1), w2)  # bvsdiv: C truncating division
    return z3.If(z3.And(a == b, a == _c(mn)), _c(mx), _sx(q))


def ref_sat_mul16_trunc(a, b):
    ab = npint.bvmul(_lo(a, 32), _lo(b, 32))
    q = ab / z3.BitVecVal(1 << 15, 32)
    return z3.If(z3.And(a == b, a == _c(I16MIN)), _c(I16MAX), _sx(q))


def ref_rdbp(x, e):
    mask = (1 << e) - 1
    rem = x & _c(mask)
    thr = _c(mask >> 1) + z3.If(x < 0, _c(1), _c(0))
    return (x >> e) + z3.If(rem > thr, _c(1), _c(0))


def ref_shl_sat(a, off, bits):
    mn, mx = -(1 << (bits - 1)), (1 << (bits - 1)) - 1
    s = a << off
    return z3.If(s < _c(mn), _c(mn), z3.If(s > _c(mx), _c(mx), s))


def ref_srmbp(x, e):
    thr = (1 << (31 - e)) - 1
    return z3.If(x > _c(thr), _c(I32MAX), z3.If(x < _c(-thr), _c(I32MIN), x << e))


def ref_downscale(a):
    return z3.If(a >= _c(I32MAX - (1 << 15)), _c(I16MAX), (a + _c(1 << 15)) >> 16)


def kernel(V, name, typ, typ2, arg, abstract_mul=False):
    import ethosu.vela.fp_math as m

    npint.ABSTRACT_MUL = bool(abstract_mul) and V.symbolic
    npint.MUL_BOUND = 1 << 62  # |a*b| <= 2^62 for int32 operands
    try:
        return _kernel(V, name, typ, typ2, arg)
    finally:
        npint.ABSTRACT_MUL = False
        npint.MUL_BOUND = None


def _kernel(V, name, typ, typ2, arg):
    import ethosu.vela.fp_math as m

    errs = (OverflowError, AssertionError, ZeroDivisionError, TypeError)
    with core.shims(*_shims()):
        try:
            if name in ("srm32", "srm16", "sm16"):
                bits = 32 if name == "srm32" else 16
                lo, hi = -(1 << (bits - 1)), (1 << (bits - 1)) - 1
                a, ia = _operand(V, "a", typ, lo, hi)
                b, ib = _operand(V, "b", typ2, lo, hi)
                f = {"srm32": m.saturating_rounding_mul32, "srm16": m.saturating_rounding_mul16, "sm16": m.saturating_mul16}[name]
                got = f(a, b)
                want = ref_srdhm(ia, ib, bits) if name != "sm16" else ref_sat_mul16_trunc(ia, ib)
            elif name == "srm32_mag":
                a, ia = _operand(V, "a", typ, I32MIN, I32MAX)
                b, ib = _operand(V, "b", typ2, I32MIN, I32MAX)
                got = m.saturating_rounding_mul32(a, b)
                r = _res(got)
                return [("srm32 result is an int32", z3.And(r >= _c(I32MIN), r <= _c(I32MAX))),
                        ("|srm32(a,b)| <= |a| and <= |b| (axiom used by the composite harnesses)", z3.And(_abs(r) <= _abs(ia), _abs(r) <= _abs(ib)))]
            elif name == "rdbp":
                x, ix = _operand(V, "x", typ, I32MIN, I32MAX)
                got = m.rounding_divide_by_pot(x, arg)
                want = ref_rdbp(ix, arg)
            elif name in ("shl32", "shl16"):
                bits = 32 if name == "shl32" else 16
                x, ix = _operand(V, "x", typ, -(1 << (bits - 1)), (1 << (bits - 1)) - 1)
                got = (m.shift_left32 if bits == 32 else m.shift_left16)(x, arg)
                want = ref_shl_sat(ix, arg, bits)
            elif name == "srmbp":
                x, ix = _operand(V, "x", typ, I32MIN, I32MAX)
                got = m.saturating_rounding_multiply_by_pot(x, arg)
                want = ref_srmbp(ix, arg)
            elif name == "downscale":
                x, ix = _operand(V, "x", typ, 0, I32MAX)
                got = m.downscale_multiplier_int32_to_int16(x)
                want = ref_downscale(ix)
            elif name == "rescale":
                src, dst = arg
                x, ix = _operand(V, "x", typ, I32MIN, I32MAX)
                got = m.rescale(src, dst, x)
                e = src - dst
                want = ref_rdbp(ix, -e) if e < 0 else ref_srmbp(ix, e)
            else:
                raise KeyError(name)
        except errs as e:
            return [("%s(%s operand) raised %s: %s" % (name, typ, type(e).__name__, str(e)[:80]), False)]
    return [("%s == reference (operand type %s)" % (name, typ), _res(got) == want)]


# ---- composite: multiply_by_quantized_multiplier (TFLite MultiplyByQuantizedMultiplier)


def mbqm(V, typ, shift):
    """x in the int8/int16-difference domain the callers use ([-65535, 65535]), multiplier in [2^30, 2^31-1] (image of
    quantise_scale; 2^31 itself cannot be passed to an int32 reference), shift as returned by quantise_scale"""
    import ethosu.vela.fp_math as m

    tlo = {"int8": -128, "int16": -32768}.get(typ, -65535)
    thi = {"int8": 127, "int16": 32767}.get(typ, 65535)
    with core.shims(*_shims()):
        x, ix = _operand(V, "x", typ, tlo, thi)
        scale, isc = _operand(V, "scale", "pyint", 1 << 30, (1 << 31) - 1)
        s = 31 - shift
        left, right = (s, 0) if s > 0 else (0, -s)
        xs = ix << left
        V.assume(z3.And(xs >= _c(I32MIN), xs <= _c(I32MAX)))  # TFLite's reference requires x * 2^left_shift to fit int32
        saved = m.saturating_rounding_mul32
        stub_calls = []
        if V.symbolic:
            # leaf proven by kernel/srm32; uninterpreted function shared by implementation and reference
            m.saturating_rounding_mul32 = lambda a, b: (stub_calls.append(1), _srm_stub(a, b))[1]
        try:
            got = m.multiply_by_quantized_multiplier(x, scale, shift)
        except (OverflowError, AssertionError, TypeError) as e:
            return [("multiply_by_quantized_multiplier(%s operand, shift %d) raised %s: %s" % (typ, shift, type(e).__name__, str(e)[:80]), False)]
        finally:
            m.saturating_rounding_mul32 = saved
    if not V.symbolic:
        want = _conc_rdbp(_conc_srdhm(int(x) << left, int(scale)), right)
        return [("multiply_by_quantized_multiplier == TFLite reference (operand type %s, shift %d)" % (typ, shift), int(got) == want)]
    if stub_calls:
        want = ref_rdbp(_srm_ref(xs, isc), right)
    else:
        # the code under test did not go through the doubling-high-multiply leaf on this path: the abstraction is not shared, so the reference is
        # evaluated exactly (bit-blasted 17 x 31 bit product; the operand domain of this lemma keeps it small)
        want = ref_rdbp(ref_srdhm(xs, isc, 32), right)
    return [("multiply_by_quantized_multiplier == TFLite reference (operand type %s, shift %d)" % (typ, shift), _res(got) == want)]


# ---- composite: exponential helpers, leaf multiply as an uninterpreted function


def _abs(x):
    return z3.If(x < 0, -x, x)


def _srm_axioms(r, a, b):
    """facts about SaturatingRoundingDoublingHighMul on int32 operands that the composite harnesses rely on (discharged on the real
    leaf by kernel/srm32_mag): the result is an int32 and its magnitude does not exceed either operand's (|a*b| / 2^31 <= min(|a|,|b|),
    and rounding a real of magnitude <= an integer n to the nearest integer gives at most n)"""
    if core.CTX is not None:
        core.CTX.assume(z3.And(r >= _c(I32MIN), r <= _c(I32MAX), _abs(r) <= _abs(a), _abs(r) <= _abs(b)))


def _srm_stub(a, b):
    wa, wb = npint.wide(a), npint.wide(b)
    r = _SRM(wa, wb)
    _srm_axioms(r, wa, wb)
    return SNp(_lo(r, 64), 64, True)  # the real helper returns np.int64 on its main path


def _srm_ref(a, b):
    r = _SRM(a, b)
    _srm_axioms(r, a, b)
    return _sx(_lo(r, 64))


def _ref_exp_interval(a):
    """gemmlowp exp_on_interval_between_negative_one_quarter_and_0_excl<int32> on Q0.31, leaf = _SRM"""
    x = a + _c(1 << 28)
    x2 = _srm_ref(x, x)
    x3 = _srm_ref(x2, x)
    x4 = _srm_ref(x2, x2)
    x4_4 = ref_rdbp(x4, 2)
    t = ref_rdbp(_srm_ref(x4_4 + x3, _c(715827883)) + x2, 1)
    return _c(1895147668) + _srm_ref(_c(1895147668), x + t)  # gemmlowp adds in int32; never overflows for the real leaf


def exp_interval(V, typ):
    with _width(64):  # all values of this computation are below 2^34; 64-bit vectors keep code and reference terms identical
        return _exp_interval(V, typ)


def _exp_interval(V, typ):
    import ethosu.vela.fp_math as m

    with core.shims(*_shims()):
        a, ia = _operand(V, "a", typ, -(1 << 29), -1)
        if V.symbolic:
            r0 = _ref_exp_interval(ia)
            # with the leaf abstracted to an uninterpreted function the final int32 sum could overflow; it cannot for the real
            # leaf (result is exp(a) in Q0.31), so that spurious case is excluded here and re-checked concretely on replay
            V.assume(z3.And(r0 >= _c(I32MIN), r0 <= _c(I32MAX)))
        saved = m.saturating_rounding_mul32
        if V.symbolic:
            m.saturating_rounding_mul32 = _srm_stub
        try:
            got = m.exp_on_interval_between_negative_one_quarter_and_0_excl(a)
        except (OverflowError, AssertionError, TypeError) as e:
            return [("exp_on_interval(%s operand) raised %s: %s" % (typ, type(e).__name__, str(e)[:80]), False)]
        finally:
            m.saturating_rounding_mul32 = saved
    if not V.symbolic:
        want = _conc_exp_interval(int(a))
        return [("exp_on_interval == gemmlowp reference", int(got) == want)]
    want = _ref_exp_interval(ia)
    return [("exp_on_interval == gemmlowp reference (leaf multiply shared)", _res(got) == want)]


def exp_interval_exact(V, shift):
    """exp_on_interval... with the leaf multiplication NOT abstracted: exact 64-bit products, for operands of a low-entropy family a = -(k << shift),
    k a symbolic 10-bit integer (1023 values per shift, the solver propagates them through the bit-blasted products).  Complements exp_interval,
    whose abstract leaf leaves every value *between* two leaf calls unconstrained: a slip in the glue arithmetic that only matters for some
    residues of an intermediate (a floor where the reference rounds) shows up there as an abstract counterexample the real leaf need not
    reproduce; here the intermediates are the real ones."""
    import ethosu.vela.fp_math as m

    with _width(64):
        with core.shims(*_shims()):
            k = V.extra("big", "k", 1, 1023)
            a = -(k << shift)
            ia = npint.wide(a)
            try:
                got = m.exp_on_interval_between_negative_one_quarter_and_0_excl(a)
            except (OverflowError, AssertionError, TypeError) as e:
                return [("exp_on_interval(-(k << %d)) raised %s: %s" % (shift, type(e).__name__, str(e)[:80]), False)]
        if not V.symbolic:
            return [("exp_on_interval == gemmlowp reference (exact leaf)", int(got) == _conc_exp_interval(int(a)))]
        x = ia + _c(1 << 28)
        x2 = ref_srdhm(x, x)
        x3 = ref_srdhm(x2, x)
        x4 = ref_srdhm(x2, x2)
        t = ref_rdbp(ref_srdhm(ref_rdbp(x4, 2) + x3, _c(715827883)) + x2, 1)
        want = _c(1895147668) + ref_srdhm(_c(1895147668), x + t)
        return [("exp_on_interval == gemmlowp reference (exact leaf)", _res(got) == want)]


def _conc_srdhm(a, b):
    if a == b == I32MIN:
        return I32MAX
    ab = a * b
    nudge = (1 << 30) if ab >= 0 else 1 - (1 << 30)
    n = ab + nudge
    return n // (1 << 31) if n >= 0 else -((-n) // (1 << 31))


def _conc_rdbp(x, e):
    mask = (1 << e) - 1
    rem = x & mask
    thr = (mask >> 1) + (1 if x < 0 else 0)
    return (x >> e) + (1 if rem > thr else 0)


def _conc_exp_interval(a):
    x = a + (1 << 28)
    x2 = _conc_srdhm(x, x)
    x3 = _conc_srdhm(x2, x)
    x4 = _conc_srdhm(x2, x2)
    t = _conc_rdbp(_conc_srdhm(_conc_rdbp(x4, 2) + x3, 715827883) + x2, 1)
    return 1895147668 + _conc_srdhm(1895147668, x + t)


def _conc_exp_neg(a):
    """gemmlowp exp_on_negative_values for Q5.26 input, Q0.31 output"""
    if a == 0:
        return I32MAX
    one_quarter = 1 << 24
    mask = one_quarter - 1
    amq = (a & mask) - one_quarter
    res = _conc_exp_interval(amq * 32)  # Rescale<0>: exact left shift by 5 (|amq| <= 2^24)
    rem = amq - a
    for exponent, mult in ((-2, 1672461947), (-1, 1302514674), (0, 790015084), (1, 290630308), (2, 39332535), (3, 720401), (4, 242)):
        if rem & (1 << (26 + exponent)):
            res = _conc_srdhm(res, mult)
    return res


def exp_neg(V, typ, band):
    with _width(64):
        return _exp_neg(V, typ, band)


def _exp_neg(V, typ, band):
    """exp_on_negative_values: the barrel-shifter structure.  `band` (0..127) fixes bits 24..30 of -a (quarter units of the Q5.26 input), so the set of
    multipliers applied is concrete per instance while the fractional 24 bits stay symbolic."""
    import ethosu.vela.fp_math as m

    lo = -((band + 1) << 24) + (1 if band < 127 else 0)
    hi = -(band << 24)
    with core.shims(*_shims()):
        a, ia = _operand(V, "a", typ, max(lo, I32MIN), min(hi, 0))
        if V.symbolic:
            amq0 = (ia & _c((1 << 24) - 1)) - _c(1 << 24)
            r0 = _ref_exp_interval(amq0 << 5)
            V.assume(z3.And(r0 >= _c(I32MIN), r0 <= _c(I32MAX)))  # see exp_interval
        saved = m.saturating_rounding_mul32
        if V.symbolic:
            m.saturating_rounding_mul32 = _srm_stub
        try:
            got = m.exp_on_negative_values(a)
        except (OverflowError, AssertionError, TypeError) as e:
            return [("exp_on_negative_values(%s operand) raised %s: %s" % (typ, type(e).__name__, str(e)[:80]), False)]
        finally:
            m.saturating_rounding_mul32 = saved
    if not V.symbolic:
        return [("exp_on_negative_values == gemmlowp reference", int(got) == _conc_exp_neg(int(a)))]
    one_quarter = 1 << 24
    amq = (ia & _c(one_quarter - 1)) - _c(one_quarter)
    res = _ref_exp_interval(amq << 5)
    rem = amq - ia
    for exponent, mult in ((-2, 1672461947), (-1, 1302514674), (0, 790015084), (1, 290630308), (2, 39332535), (3, 720401), (4, 242)):
        bit = 1 << (26 + exponent)
        has = (rem & _c(bit)) != 0
        res = z3.If(has, _srm_ref(res, _c(mult)), res)
    want = z3.If(ia == 0, _c(I32MAX), res)
    return [("exp_on_negative_values == gemmlowp reference (leaf multiply shared)", _res(got) == want)]


# ---- exp_on_negative_values, structure only (quick tier): both the leaf multiply and the interval exponential are uninterpreted


_EXPIF = {}


def _EXPI(a):
    w = npint.W
    if w not in _EXPIF:
        _EXPIF[w] = z3.Function("EXP_INTERVAL_%d" % w, z3.BitVecSort(w), z3.BitVecSort(w))
    return _EXPIF[w](a)


def exp_neg_struct(V, typ, band):
    with _width(64):
        return _exp_neg_struct(V, typ, band)


def _exp_neg_struct(V, typ, band):
    """range reduction + barrel shifter of exp_on_negative_values (which multipliers are applied, in which order, to what) with the
    interval exponential and the leaf multiply as shared uninterpreted functions; the full composition is in the thorough tier"""
    import ethosu.vela.fp_math as m

    lo = -((band + 1) << 24) + (1 if band < 127 else 0)
    hi = -(band << 24)
    with core.shims(*_shims()):
        a, ia = _operand(V, "a", typ, max(lo, I32MIN), min(hi, 0))

        def expi_stub(x):
            r = _EXPI(npint.wide(x))
            core.CTX.assume(z3.And(r >= _c(0), r <= _c(I32MAX)))
            return SNp(_lo(r, 32), 32, True)  # the real function returns np.int32

        saved = (m.saturating_rounding_mul32, m.exp_on_interval_between_negative_one_quarter_and_0_excl)
        if V.symbolic:
            m.saturating_rounding_mul32 = _srm_stub
            m.exp_on_interval_between_negative_one_quarter_and_0_excl = expi_stub
        try:
            got = m.exp_on_negative_values(a)
        except (OverflowError, AssertionError, TypeError) as e:
            return [("exp_on_negative_values(%s operand) raised %s: %s" % (typ, type(e).__name__, str(e)[:80]), False)]
        finally:
            m.saturating_rounding_mul32, m.exp_on_interval_between_negative_one_quarter_and_0_excl = saved
    if not V.symbolic:
        return [("exp_on_negative_values == gemmlowp reference", int(got) == _conc_exp_neg(int(a)))]
    one_quarter = 1 << 24
    amq = (ia & _c(one_quarter - 1)) - _c(one_quarter)
    r0 = _EXPI(amq << 5)
    res = _sx(_lo(r0, 32))
    rem = amq - ia
    for exponent, mult in ((-2, 1672461947), (-1, 1302514674), (0, 790015084), (1, 290630308), (2, 39332535), (3, 720401), (4, 242)):
        has = (rem & _c(1 << (26 + exponent))) != 0
        res = z3.If(has, _srm_ref(res, _c(mult)), res)
    want = z3.If(ia == 0, _c(I32MAX), res)
    return [("exp_on_negative_values: range reduction and barrel shifter == gemmlowp (leaves shared)", _res(got) == want)]


# ---- integer lookup tables / constant folding: per-code bodies of the real rewrites


def _bmin(*a):
    """min() on bit-vector backed values without forking (value semantics only)"""
    r = npint.wide(a[0])
    for x in a[1:]:
        wx = npint.wide(x)
        r = z3.If(wx < r, wx, r)
    return npint.SBig(r, 70)


def _bmax(*a):
    r = npint.wide(a[0])
    for x in a[1:]:
        wx = npint.wide(x)
        r = z3.If(wx > r, wx, r)
    return npint.SBig(r, 70)


def _smin(*a):
    if any(isinstance(x, (SNp, npint.SBig)) for x in a):
        return _bmin(*a)
    return core.smin(*a)


def _smax(*a):
    if any(isinstance(x, (SNp, npint.SBig)) for x in a):
        return _bmax(*a)
    return core.smax(*a)


class _Obj:
    def __init__(self, **kw):
        self.__dict__.update(kw)


def _ref_mbqm(x, scale, shift):
    s = 31 - shift
    left, right = (s, 0) if s > 0 else (0, -s)
    return ref_rdbp(_srm_ref(x << left, scale), right)


def _conc_mbqm(x, scale, shift):
    s = 31 - shift
    left, right = (s, 0) if s > 0 else (0, -s)
    return _conc_rdbp(_conc_srdhm(x << left, scale), right)


def lrelu_table(V, dtype, zp_in, id_shift, al_shift, scaled, codes, zptype):
    """convert_lrelu_to_lut: every table entry == clamp(zp_out + MultiplyByQuantizedMultiplier(alpha_scalar * (x - zp_in) or
    (x - zp_in), multiplier, shift)) (TFLite LeakyRelu/PRelu reference arithmetic).  Symbolic: both multipliers, alpha_scalar,
    output zero point; enumerated: input zero point, shifts, codes, zero-point type (np.int64 from a model file / Python int)."""
    import ethosu.vela.tflite_graph_optimiser as go
    import ethosu.vela.fp_math as m
    from ethosu.vela.data_type import DataType

    with _width(80):
        return _lrelu_table(V, go, m, DataType, dtype, zp_in, id_shift, al_shift, scaled, codes, zptype)


def _lrelu_table(V, go, m, DataType, dtype, zp_in, id_shift, al_shift, scaled, codes, zptype):
    qmin, qmax = (0, 255) if dtype == "uint8" else (-128, 127)
    with core.shims(*(_shims() + ((go, {"min": _smin, "max": _smax, "int": npint.sint_shim}),))):
        id_scale, w_id = _operand(V, "identity_scale", "pyint", 1 << 30, (1 << 31) - 1)
        al_scale, w_al = _operand(V, "alpha_scale", "pyint", 1 << 30, (1 << 31) - 1)
        zp_out, w_zpo = _operand(V, "zp_out", zptype, qmin, qmax)
        if scaled:
            al_scalar, w_as = _operand(V, "alpha_scalar", "pyint", -128, 127)
        else:
            al_scalar, w_as = 1, _c(1)
        zpi = zp_in if zptype == "pyint" or not V.symbolic else SNp(z3.BitVecVal(zp_in, 64), 64, True)
        if not V.symbolic and zptype != "pyint":
            import numpy as np

            zpi = np.int64(zp_in)
        pairs = iter([(id_scale, id_shift), (al_scale, al_shift)])
        attrs = {"alpha": 0.1}
        if scaled:
            attrs["alpha_scaling"] = (al_scalar, al_scale, al_shift)
        dt = DataType.uint8 if dtype == "uint8" else DataType.int8
        ifm = _Obj(dtype=dt, quantization=_Obj(scale_f32=0.5, zero_point=zpi))
        ofm = _Obj(dtype=dt, quantization=_Obj(scale_f32=0.25, zero_point=zp_out))
        op = _Obj(attrs=attrs, get_ifm_ofm=lambda: (ifm, ofm))
        captured = {}
        saved = (go.convert_to_lut, go.scaling.elementwise_mul_scale, m.saturating_rounding_mul32, go.range)if hasattr(go, "range") else (go.convert_to_lut, go.scaling.elementwise_mul_scale, m.saturating_rounding_mul32, None)
        go.convert_to_lut = lambda op_, values, name: captured.setdefault("values", list(values))
        go.scaling.elementwise_mul_scale = lambda a, b, c: next(pairs)
        if V.symbolic:
            m.saturating_rounding_mul32 = _srm_stub
        sel = set(codes)

        class _Codes:
            """the 256-code range: min()/max() (first two iterations in the function) see the full range, the table loop only
            the selected codes"""

            def __init__(self, r):
                self.r, self.n = r, 0

            def __iter__(self):
                self.n += 1
                return iter(self.r) if self.n <= 2 else iter([x for x in self.r if x in sel])

        def crange(*a):
            import builtins

            r = builtins.range(*a)
            return _Codes(r) if len(r) == 256 else r

        go.range = crange
        try:
            go.convert_lrelu_to_lut(op, None)
        except (OverflowError, AssertionError, TypeError) as e:
            return [("convert_lrelu_to_lut raised %s: %s" % (type(e).__name__, str(e)[:100]), False)]
        finally:
            go.convert_to_lut, go.scaling.elementwise_mul_scale, m.saturating_rounding_mul32 = saved[:3]
            if saved[3] is None:
                del go.range
            else:
                go.range = saved[3]
    vals = captured.get("values")
    xs = [x for x in range(qmin, qmax + 1) if x in sel]
    cl = [("table has one entry per requested code", vals is not None and len(vals) == len(xs))]
    if vals is None or len(vals) != len(xs):
        return cl
    for x, v in zip(xs, vals):
        if x < zp_in:
            arg = w_as * _c(x - zp_in)
            if V.symbolic:
                y = _ref_mbqm(arg, w_al, al_shift)
            else:
                y = _c(_conc_mbqm(int(al_scalar) * (x - zp_in), int(al_scale), al_shift))
        else:
            if V.symbolic:
                y = _ref_mbqm(_c(x - zp_in), w_id, id_shift)
            else:
                y = _c(_conc_mbqm(x - zp_in, int(id_scale), id_shift))
        e = w_zpo + y
        e = z3.If(e < _c(qmin), _c(qmin), z3.If(e > _c(qmax), _c(qmax), e))
        cl.append(("table[%d] == reference kernel value" % x, npint.wide(v) == e))
    return cl


def quantize_fold(V, dtype, shift, n, zptype):
    """optimise_quantize: every folded constant == clamp(zp_out + MultiplyByQuantizedMultiplier(val - zp_in, multiplier, shift))
    (TFLite Requantize reference).  Symbolic: the constant values (np.int8 / np.int16 elements), both zero points, the multiplier."""
    import ethosu.vela.tflite_graph_optimiser as go
    import ethosu.vela.fp_math as m
    from ethosu.vela.data_type import DataType
    from ethosu.vela.operation import Op
    import numpy as np

    with _width(80):
        bits = 8 if dtype == "int8" else 16
        qmin, qmax = -(1 << (bits - 1)), (1 << (bits - 1)) - 1
        with core.shims(*(_shims() + ((go, {"min": _smin, "max": _smax, "int": npint.sint_shim}),))):
            scale, w_sc = _operand(V, "multiplier", "pyint", 1 << 30, (1 << 31) - 1)
            zp_in, w_zi = _operand(V, "zp_in", zptype, qmin, qmax)
            zp_out, w_zo = _operand(V, "zp_out", zptype, qmin, qmax)
            vals, wv = [], []
            for i in range(n):
                v, w = _operand(V, "val%d" % i, dtype, qmin, qmax)
                vals.append(v)
                wv.append(w)
            arr = np.empty(n, dtype=object) if V.symbolic else np.array(vals, dtype=getattr(np, dtype))
            if V.symbolic:
                for i, v in enumerate(vals):
                    arr[i] = v
            dt = DataType.int8 if dtype == "int8" else DataType.int16
            ifm = _Obj(dtype=dt, values=arr, ops=[_Obj(type=Op.Const)], quantization=_Obj(scale_f32=0.5, zero_point=zp_in), consumer_list=[])
            ofm = _Obj(dtype=dt, values=None, quantization=_Obj(scale_f32=0.25, zero_point=zp_out, quant_min=qmin, quant_max=qmax))
            op = _Obj(type=Op.Quantize, run_on_npu=True, get_ifm_ofm=lambda: (ifm, ofm), op_index=0, inputs=[])
            captured = {}

            class _NP:
                def array(self, v, *a, **k):
                    captured.setdefault("values", list(v))
                    return _Obj(shape=None)

                def __getattr__(self, nme):
                    return getattr(np, nme)

            saved = (go.quantise_scale, m.saturating_rounding_mul32, go.np)
            go.quantise_scale = lambda x: (scale, shift)
            go.np = _NP()
            if V.symbolic:
                m.saturating_rounding_mul32 = _srm_stub
            try:
                go.optimise_quantize(op, None, None)
            except (OverflowError, AssertionError, TypeError) as e:
                return [("optimise_quantize raised %s: %s" % (type(e).__name__, str(e)[:100]), False)]
            finally:
                go.quantise_scale, m.saturating_rounding_mul32, go.np = saved
        out = captured.get("values")
        cl = [("one folded value per constant", out is not None and len(out) == n)]
        if out is None or len(out) != n:
            return cl
        for i in range(n):
            d = wv[i] - w_zi
            if V.symbolic:
                y = _ref_mbqm(d, w_sc, shift)
            else:
                y = _c(_conc_mbqm(int(vals[i]) - int(zp_in), int(scale), shift))
            e = w_zo + y
            e = z3.If(e < _c(qmin), _c(qmin), z3.If(e > _c(qmax), _c(qmax), e))
            cl.append(("folded value %d == reference kernel value" % i, npint.wide(out[i]) == e))
        return cl


def quantize_scale(V, dtype):
    """optimise_quantize: the requantisation scale handed to quantise_scale is ifm_scale / ofm_scale formed in DOUBLE from the two
    float32 scales of the model (TFLite reference: double effective_scale = (double)input_scale / (double)output_scale)"""
    import ethosu.vela.tflite_graph_optimiser as go
    from ethosu.vela.data_type import DataType
    from ethosu.vela.operation import Op
    import numpy as np
    from symx.fp import SFloat

    s_i = V.extra("float", "ifm_scale", "f32")
    s_o = V.extra("float", "ofm_scale", "f32")
    for s_ in (s_i, s_o):
        V.assume(z3.And(z3.fpIsNormal(fp.F(s_)), z3.fpGEQ(fp.as_f64(s_) if isinstance(s_, SFloat) else z3.FPVal(float(s_), fp.F64), z3.FPVal(2.0 ** -20, fp.F64)),
                        z3.fpLEQ(fp.as_f64(s_) if isinstance(s_, SFloat) else z3.FPVal(float(s_), fp.F64), z3.FPVal(16.0, fp.F64))))
    dt = DataType.int8 if dtype == "int8" else DataType.int16
    arr = np.array([1], dtype=np.int8 if dtype == "int8" else np.int16)
    ifm = _Obj(dtype=dt, values=arr, ops=[_Obj(type=Op.Const)], quantization=_Obj(scale_f32=s_i, zero_point=np.int64(0)), consumer_list=[])
    ofm = _Obj(dtype=dt, values=None, quantization=_Obj(scale_f32=s_o, zero_point=np.int64(0), quant_min=-128, quant_max=127))
    op = _Obj(type=Op.Quantize, run_on_npu=True, get_ifm_ofm=lambda: (ifm, ofm), op_index=0, inputs=[])
    seen = []

    class _NP:
        @staticmethod
        def float64(x=0.0):
            return SFloat(fp.as_f64(x), "f64") if isinstance(x, SFloat) else np.float64(x)

        double = float64

        def array(self, v, *a, **k):
            return _Obj(shape=None)

        def __getattr__(self, nme):
            return getattr(np, nme)

    saved = (go.quantise_scale, go.np)
    go.quantise_scale = lambda x: (seen.append(x), (1 << 30, 31))[1]
    if V.symbolic:
        go.np = _NP()
    else:
        class _NP2(_NP):
            float64 = staticmethod(np.float64)

        go.np = _NP2()
    try:
        go.optimise_quantize(op, None, None)
    finally:
        go.quantise_scale, go.np = saved
    if len(seen) != 1:
        return [("quantise_scale called once", False)]
    got = seen[0]
    d_i = fp.as_f64(s_i) if isinstance(s_i, SFloat) else z3.FPVal(float(s_i), fp.F64)
    d_o = fp.as_f64(s_o) if isinstance(s_o, SFloat) else z3.FPVal(float(s_o), fp.F64)
    ref = z3.fpDiv(fp.RNE, d_i, d_o)
    gotd = fp.as_f64(got) if isinstance(got, SFloat) else z3.FPVal(float(got), fp.F64)
    is64 = (got.kind in ("f64", "py")) if isinstance(got, SFloat) else isinstance(got, (float, np.float64))
    return [("the scale ratio is a double", bool(is64)), ("effective scale == (double)ifm_scale / (double)ofm_scale", gotd == ref)]


def tanh_fn(V, which):
    """convert_tanh_sigmoid_to_lut tabulates the real function: Tanh uses math.tanh itself (not a clamped approximation); the
    function is observed at the call into convert_to_lut8 and compared on a grid that includes |x| >= 4"""
    import math
    import ethosu.vela.tflite_graph_optimiser as go
    from ethosu.vela.operation import Op

    cap = {}
    saved = go.convert_to_lut8
    go.convert_to_lut8 = lambda op_, fn, name: cap.setdefault("fn", fn)
    try:
        go.convert_tanh_sigmoid_to_lut(_Obj(type=Op.Tanh if which == "tanh" else Op.Sigmoid), None, None)
    finally:
        go.convert_to_lut8 = saved
    fn = cap.get("fn")
    if fn is None:
        return [("convert_to_lut8 reached", False)]
    xs = [i / 8.0 for i in range(-80, 81)]
    if which == "tanh":
        ok = all(fn(x) == math.tanh(x) for x in xs)
        return [("the tabulated function is math.tanh on [-10, 10]", ok)]
    ref = lambda x: 0.0 if x <= -8 else (1.0 if x >= 8 else 1 / (1 + math.exp(-x)))  # noqa
    return [("the tabulated function is the (clamped at |x|>=8) logistic function", all(fn(x) == ref(x) for x in xs))]


def _ref_sat16(x):
    return z3.If(x < _c(I16MIN), _c(I16MIN), z3.If(x > _c(I16MAX), _c(I16MAX), x))


def hardswish_table(V, dtype, code, relu_shift, out_shift, zptype, zp_in_value, abstract_mul=False, fixed=None):
    """convert_hardswish_to_lut: one table entry == the TFLite(-Micro) reference HardSwish recipe on int16 fixed point
    (reference_ops.h: hires input = (x - zp) << 7; SaturatingRoundingDoublingHighMul with the int16 output multiplier; reluish value
    through SaturatingLeftShift / SRDHM / RoundingDivideByPOT; (v + 2^15) >> 1; SaturatingDoublingHighMul; RoundingDivideByPOT; + zp;
    clamp).  Symbolic: both Q31 multipliers, both zero points; enumerated: code, the two shifts, zero point type.  All 16-bit
    products are bit-blasted (no abstraction)."""
    import ethosu.vela.tflite_graph_optimiser as go
    import ethosu.vela.fp_math as m
    from ethosu.vela.data_type import DataType
    from ethosu.vela.operation import Op

    # quick tier: the one symbolic x symbolic 16-bit product (reluish value x pre-shift output) is a shared uninterpreted function with
    # the bound |a*b| <= 2^30; the thorough tier bit-blasts it
    npint.ABSTRACT_MUL = bool(abstract_mul) and V.symbolic
    npint.MUL_BOUND = 1 << 30
    try:
        with _width(96):
            return _hardswish_table(V, go, m, DataType, Op, dtype, code, relu_shift, out_shift, zptype, zp_in_value, fixed)
    finally:
        npint.ABSTRACT_MUL = False
        npint.MUL_BOUND = None


def _hardswish_table(V, go, m, DataType, Op, dtype, code, relu_shift, out_shift, zptype, zp_in_value, fixed=None):
    if True:
        qmin, qmax = (0, 255) if dtype == "uint8" else (-128, 127)
        with core.shims(*(_shims() + ((go, {"min": _smin, "max": _smax, "int": npint.sint_shim, "np": npint.SNUMPY}),))):
            # `fixed` = ("out"|"relu", multiplier): that Q31 multiplier is concrete, the other symbolic - the entry's one 16x16 product of two
            # symbolic factors (reluish value x pre-shifted input) then has a concrete factor, which is what makes unsaturated entries decidable
            if fixed is not None and fixed[0] == "out":
                out_scale, w_os = int(fixed[1]), _c(int(fixed[1]))
            else:
                out_scale, w_os = _operand(V, "out_scale", "pyint", 1 << 30, (1 << 31) - 1)
            if fixed is not None and fixed[0] == "relu":
                relu_scale, w_rs = int(fixed[1]), _c(int(fixed[1]))
            else:
                relu_scale, w_rs = _operand(V, "relu_scale", "pyint", 1 << 30, (1 << 31) - 1)
            # the input zero point is enumerated: (code - zero point) is then concrete and every product has at most one 16x16 symbolic
            # multiplier to bit-blast (exact, no abstraction); multipliers and the output zero point stay symbolic
            import numpy as _np

            zp_in = zp_in_value if zptype == "pyint" else (SNp(z3.BitVecVal(zp_in_value, 64), 64, True) if V.symbolic else _np.int64(zp_in_value))
            w_zi = _c(zp_in_value)
            zp_out, w_zo = _operand(V, "zp_out", zptype, qmin, qmax)
            dt = DataType.uint8 if dtype == "uint8" else DataType.int8
            ifm = _Obj(dtype=dt, quantization=_Obj(scale_f32=0.02, zero_point=zp_in))
            ofm = _Obj(dtype=dt, quantization=_Obj(scale_f32=0.01, zero_point=zp_out))
            op = _Obj(type=Op.HardSwish, get_ifm_ofm=lambda: (ifm, ofm))
            pairs = iter([(out_scale, out_shift), (relu_scale, relu_shift)])
            captured = {}
            sel = {code}

            class _Codes:
                def __init__(self, r):
                    self.r, self.n = r, 0

                def __iter__(self):
                    self.n += 1
                    return iter(self.r) if self.n <= 2 else iter([x for x in self.r if x in sel])

            def crange(*a):
                import builtins

                r = builtins.range(*a)
                return _Codes(r) if len(r) == 256 else r

            saved = (go.convert_to_lut, go.scaling.quantise_scale, getattr(go, "range", None))
            go.convert_to_lut = lambda op_, values, name: captured.setdefault("values", list(values))
            go.scaling.quantise_scale = lambda x: next(pairs)
            go.range = crange
            try:
                go.convert_hardswish_to_lut(op, None, None)
            except (OverflowError, AssertionError, TypeError) as e:
                return [("convert_hardswish_to_lut raised %s: %s" % (type(e).__name__, str(e)[:100]), False)]
            finally:
                go.convert_to_lut, go.scaling.quantise_scale = saved[:2]
                if saved[2] is None:
                    del go.range
                else:
                    go.range = saved[2]
        vals = captured.get("values")
        if vals is None or len(vals) != 1:
            return [("one table entry produced", False)]
        # ---- TFLite reference recipe
        out16 = ref_downscale(w_os)
        relu16 = ref_downscale(w_rs)
        iv = _c(code) - w_zi
        hires = iv << 7
        pre = ref_srdhm(hires, out16, 16)
        rv = hires
        exp_r = 31 - relu_shift
        if exp_r > 0:
            rv = ref_shl_sat(rv, exp_r - 1, 16)
        rv = ref_srdhm(rv, relu16, 16)
        if exp_r > 0:
            rv = ref_shl_sat(rv, 1, 16)
        if exp_r < 0:
            rv = ref_rdbp(rv, -exp_r)
        rv = (rv + _c(1 << 15)) >> 1
        prod = ref_sat_mul16_trunc(rv, pre)
        sh = 31 - out_shift
        res = ref_rdbp(prod, -sh if sh < 0 else 0) + w_zo
        res = z3.If(res < _c(qmin), _c(qmin), z3.If(res > _c(qmax), _c(qmax), res))
        return [("hard-swish table[%d] == TFLite reference recipe" % code, npint.wide(vals[0]) == res)]


class _NPF:
    """numpy stand-in for float code: np.double on a float proxy is the exact widening to binary64, np.trunc works on proxies"""

    @staticmethod
    def double(x=0.0):
        from symx import fp as _fp

        if isinstance(x, _fp.SFloat):
            return _fp.SFloat(_fp.as_f64(x), "f64")
        return np.double(x)

    float64 = double

    @staticmethod
    def trunc(x):
        from symx import fp as _fp

        return _fp.trunc(x)

    @staticmethod
    def round(x, *a, **k):
        from symx import fp as _fp

        return _fp.np_round(x, *a, **k)

    @staticmethod
    def rint(x, *a, **k):
        from symx import fp as _fp

        return _fp.np_rint(x, *a, **k)

    @staticmethod
    def floor(x, *a, **k):
        from symx import fp as _fp

        return _fp.np_floor(x, *a, **k)

    @staticmethod
    def ceil(x, *a, **k):
        from symx import fp as _fp

        return _fp.np_ceil(x, *a, **k)

    def __getattr__(self, n):
        return getattr(np, n)


def lut8_wrapper(V, site, dtype, code, scale_kind, zp_in, zp_out, ofm_scale):
    """the rounding wrapper around a tabulated real function (convert_to_lut8 in the graph optimiser, create_lut_8bit_op in lut.py), for one
    input code: the function is called at the dequantised input ifm_scale * (code - zp_in), and for ANY value y it returns (a fresh symbolic
    double) the entry is the saturated nearest integer to zp_out + y / ofm_scale.  The input scale and y are symbolic; the output scale and the
    zero points are enumerated (a floating-point division by a SYMBOLIC divisor is beyond both z3 and cvc5: 120 s / 200 s time-outs measured on the
    float32 query; by a constant it takes 4 s in float32, 27 s in double).  All in IEEE arithmetic; the oracle is phrased multiplicatively."""
    import ethosu.vela.tflite_graph_optimiser as go
    import ethosu.vela.lut as lut
    import ethosu.vela.numeric_util as nu
    from ethosu.vela.data_type import DataType
    from symx import fp

    qmin, qmax = (0, 255) if dtype == "uint8" else (-128, 127)
    F64, RNE = fp.F64, fp.RNE
    si = V.extra("float", "ifm_scale", scale_kind)
    so = np.float32(ofm_scale) if scale_kind == "f32" else np.float64(ofm_scale)
    y = V.extra("float", "function_value", "py")
    d = lambda v: fp.as_f64(v) if isinstance(v, fp.SFloat) else z3.FPVal(float(v), F64)  # noqa
    fv = lambda c: z3.FPVal(float(c), F64)  # noqa
    if V.symbolic:
        # y within 700 output steps of zero: covers every entry of the code range and saturation on both sides
        V.assume(z3.And(z3.fpGEQ(d(si), fv(2.0 ** -12)), z3.fpLEQ(d(si), fv(4.0)), z3.fpGEQ(d(y), fv(-700.0 * ofm_scale)), z3.fpLEQ(d(y), fv(700.0 * ofm_scale))))
    elif not (2.0 ** -12 <= float(si) <= 4.0 and -700.0 * ofm_scale <= float(y) <= 700.0 * ofm_scale):
        raise core.PathAbort("replay value outside range")
    dt = DataType.uint8 if dtype == "uint8" else DataType.int8
    ifm = _Obj(dtype=dt, quantization=_Obj(scale_f32=si, zero_point=zp_in), name="ifm")
    ofm = _Obj(dtype=dt, quantization=_Obj(scale_f32=so, zero_point=zp_out), name="ofm")
    op = _Obj(ifm=ifm, ofm=ofm, get_ifm_ofm=lambda: (ifm, ofm), name="op")
    seen, captured = [], {}

    def fn(x_real):
        seen.append(x_real)
        return y

    class _Codes:  # range stand-in: min()/max() see the whole code range, the table loop only the selected code
        def __init__(self, r):
            self.r, self.n = r, 0

        def __iter__(self):
            self.n += 1
            return iter(self.r) if self.n <= 2 else iter([code])

    def crange(*a_):
        import builtins

        r = builtins.range(*a_)
        return _Codes(r) if len(r) == 256 else r

    mod = go if site == "convert_to_lut8" else lut
    saved = (mod.convert_to_lut, getattr(mod, "range", None))
    mod.convert_to_lut = lambda op_, values, name: captured.setdefault("values", list(values))
    mod.range = crange
    try:
        with core.shims((mod, {"np": _NPF(), "min": core.smin, "max": core.smax}), (nu, {"np": _NPF()})):
            if site == "convert_to_lut8":
                go.convert_to_lut8(op, fn, "f")
            else:
                lut.create_lut_8bit_op(op, fn, "f")
    finally:
        mod.convert_to_lut = saved[0]
        if saved[1] is None:
            del mod.range
        else:
            mod.range = saved[1]
    vals = captured.get("values")
    if vals is None or len(vals) != 1 or len(seen) != 1:
        return [("one table entry produced from one call of the function", False)]
    t = vals[0]
    # everything below is phrased in the float type the code itself computes in (float32 where the scales stay float32, else double):
    # the claims then share their terms with the code's own expression instead of adding a second, wider arithmetic for the solver
    xs = seen[0]
    kind = xs.kind if isinstance(xs, fp.SFloat) else "f64"
    srt = fp.F32 if kind == "f32" else F64
    cv = lambda v: z3.FPVal(float(v), srt)  # noqa
    to = lambda v: fp.F(v) if (isinstance(v, fp.SFloat) and v.e.sort() == srt) else z3.fpToFP(RNE, fp.F(v), srt)  # noqa
    sic, soc, yc = to(si), cv(so), to(y)
    tf = to(t) if isinstance(t, fp.SFloat) else cv(t)
    lhs = z3.fpAbs(z3.fpSub(RNE, z3.fpMul(RNE, z3.fpSub(RNE, tf, cv(zp_out)), soc), yc))
    half = z3.fpMul(RNE, cv(0.5 + 2.0 ** -7), soc)
    below = z3.fpLEQ(yc, z3.fpMul(RNE, cv(qmin - zp_out + 0.5 + 2.0 ** -7), soc))  # ideal value at or below the bottom code
    above = z3.fpGEQ(yc, z3.fpMul(RNE, cv(qmax - zp_out - 0.5 - 2.0 ** -7), soc))
    exact = []
    import math as _m

    if _m.frexp(float(ofm_scale))[0] == 0.5:
        # power-of-two output scale: y / ofm_scale is exact in double.  On the grid of multiples of 2^-20 (|q| < 1024: 30 significant bits, so
        # zp_out + q is exact in double as well, but NOT in float32) the entry must be exactly the saturated round-half-away-from-zero value -
        # this pins the rounding direction at ties and the precision the quotient is computed in.
        yd = d(y)
        q = z3.fpDiv(RNE, yd, fv(float(ofm_scale)))
        q20 = z3.fpMul(RNE, q, fv(2.0 ** 20))
        # ties included: the TFLite reference (LUT population of the int8 kernels) rounds the rescaled value half away from zero and THEN adds the
        # zero point - round(y / scale) + zp - so at an exact tie the direction depends on the sign of y, not of zp + y / scale
        on_grid = z3.fpEQ(q20, z3.fpRoundToIntegral(z3.RTZ(), q20))
        ideal = z3.fpAdd(RNE, fv(zp_out), z3.fpRoundToIntegral(z3.RNA(), q))
        sat = z3.If(z3.fpLT(ideal, fv(qmin)), fv(qmin), z3.If(z3.fpGT(ideal, fv(qmax)), fv(qmax), ideal))
        td = fp.as_f64(t) if isinstance(t, fp.SFloat) else fv(t)
        exact = [("power-of-two output scale, y on the 2^-20 grid: the entry is exactly sat(zp_out + round-half-away(y / ofm_scale))",
                  z3.Implies(on_grid, z3.fpEQ(td, sat)))]
    return exact + [("the function is evaluated at the dequantised input ifm_scale * (code - zp_in), computed in %s" % kind,
             z3.fpEQ(to(xs), z3.fpMul(RNE, sic, cv(code - zp_in)))),
            ("the entry is an integer code of the type", z3.And(z3.fpGEQ(tf, cv(qmin)), z3.fpLEQ(tf, cv(qmax)), z3.fpEQ(tf, z3.fpRoundToIntegral(z3.RTZ(), tf)))),
            ("the entry is the saturated nearest integer to zp_out + y / ofm_scale",
             z3.Or(z3.fpLEQ(lhs, half), z3.And(z3.fpEQ(tf, cv(qmin)), below), z3.And(z3.fpEQ(tf, cv(qmax)), above)))]


_EXPNF = {}


def _EXPN(a):
    w = npint.W
    if w not in _EXPNF:
        _EXPNF[w] = z3.Function("EXP_ON_NEGATIVE_%d" % w, z3.BitVecSort(w), z3.BitVecSort(w))
    return _EXPNF[w](a)


def softmax_table(V, left_shift):
    """SoftMax.generate_exp_table (the 256-entry exp table of the int8/uint8 softmax): entry x == exp_on_negative_values(
    SaturatingRoundingDoublingHighMul((x - 255) * 2^left_shift, multiplier)) when x - 255 >= -CalculateInputRadius(5, left_shift), else 0 -
    TFLite's softmax preparation.  The Q31 multiplier is symbolic; the two fixed-point leaves are shared uninterpreted functions (each is
    decided against gemmlowp by `kernel` / `exp_neg`); replay runs the real leaves against the concrete gemmlowp recipe."""
    with _width(64):
        import ethosu.vela.fp_math as m
        import ethosu.vela.softmax as sm

        with core.shims(*_shims()):
            scale, w_sc = _operand(V, "beta_multiplier", "pyint", 1 << 30, (1 << 31) - 1)

            def expn_stub(x):
                return SNp(_lo(_EXPN(npint.wide(x)), 32), 32, True)  # the real function returns np.int32

            def srm_stub(a, b):  # no magnitude axioms needed: the product only feeds the other leaf
                return SNp(_lo(_SRM(npint.wide(a), npint.wide(b)), 64), 64, True)

            saved = (m.saturating_rounding_mul32, m.exp_on_negative_values, sm.scaling.quantise_scale)
            sm.scaling.quantise_scale = lambda x: (scale, 31 - left_shift)
            if V.symbolic:
                m.saturating_rounding_mul32 = srm_stub
                m.exp_on_negative_values = expn_stub
            try:
                table = sm.SoftMax.generate_exp_table(None, 1.0, 1.0)
            except (OverflowError, AssertionError, TypeError) as e:
                return [("generate_exp_table raised %s: %s" % (type(e).__name__, str(e)[:80]), False)]
            finally:
                m.saturating_rounding_mul32, m.exp_on_negative_values, sm.scaling.quantise_scale = saved
        cl = [("the table has 256 entries", len(table) == 256)]
        radius = (31 * (1 << 26)) >> left_shift  # CalculateInputRadius(input_integer_bits = 5, input_left_shift)
        for x in range(min(len(table), 256)):
            d = x - 255
            if V.symbolic:
                want = _sx(_lo(_EXPN(_sx(_lo(_SRM(_c(d * (1 << left_shift)), w_sc), 64))), 32)) if d >= -radius else _c(0)
                cl.append(("exp table[%d]" % x, _res(table[x]) == want))
            else:
                want = _conc_exp_neg(_conc_srdhm(d * (1 << left_shift), int(scale))) if d >= -radius else 0
                cl.append(("exp table[%d]" % x, int(table[x]) == want))
        return cl


def _shash(x):
    """model of the built-in hash() for the keys the repository hashes itself (ints and tuples of ints): CPython's int hash is the value
    (for |x| < 2^61 - 1) except hash(-1) == -2; the tuple mixing is modelled as collision-free (an injective combination of the element
    hashes) - optimistic: a violation found under this model is a real collision of element hashes and replays on the real hash()"""
    import builtins

    def h(e):
        if isinstance(e, SInt):
            return z3.If(e.e == -1, z3.IntVal(-2), e.e)
        return z3.IntVal(builtins.hash(e))

    if isinstance(x, SInt):
        return SInt(h(x))
    if isinstance(x, tuple) and any(isinstance(e, SInt) for e in x):
        # concrete elements (with the positions of the symbolic ones) go through the real hash; each symbolic element gets its own 64-bit lane
        acc = z3.IntVal(builtins.hash(tuple(("sym", i) if isinstance(e, SInt) else e for i, e in enumerate(x))) % (1 << 64))
        k = 0
        for e in x:
            if isinstance(e, SInt):
                k += 1
                acc = acc + h(e) * (1 << (64 * k))
        return SInt(acc)
    return builtins.hash(x)


def lut_identity(V, n_sym):
    """create_lut_tensor twice: the two lookup tables share an equivalence id (= one address in the constants region, one copy of the bytes)
    exactly when their 256 values are equal; n_sym entries of each table are symbolic int8/uint8 codes, the rest equal constants"""
    import ethosu.vela.lut as lut
    import ethosu.vela.tensor as tensor
    from ethosu.vela.data_type import DataType

    for obj in list(vars(tensor).values()):
        if callable(getattr(obj, "cache_clear", None)):
            obj.cache_clear()  # value-keyed caches are module state: every execution starts from an empty one
    pos = [3, 200, 255][:n_sym]
    ta, tb = list(range(-128, 128)), list(range(-128, 128))
    eqs = []
    for i, p_ in enumerate(pos):
        ta[p_] = V.int("a%d" % i, -128, 127)
        tb[p_] = V.int("b%d" % i, -128, 127)
        eqs.append(L(ta[p_]) == L(tb[p_]))
    saved = lut.create_const_tensor
    lut.create_const_tensor = lambda name, shape, dtype, values, purpose=None, **k: _Obj(name=name, values=list(values), equivalence_id=None)
    try:
        with core.shims((tensor, {"hash": _shash}), (lut, {"hash": _shash})):
            a_ = lut.create_lut_tensor("a", ta, DataType.int8)
            b_ = lut.create_lut_tensor("b", tb, DataType.int8)
    finally:
        lut.create_const_tensor = saved
    same = a_.equivalence_id == b_.equivalence_id
    return [("two lookup tables share an equivalence id (one copy in the constants region) only if all their values are equal",
             z3.Implies(z3.BoolVal(bool(same)), z3.And(*eqs))),
            ("equal tables share their equivalence id", z3.Implies(z3.And(*eqs), z3.BoolVal(bool(same))))]


CAPS = {"quick": {}, "thorough": {}}
FRESH_FINAL = {"lut8_wrapper"}  # float queries: decided by a fresh (non-incremental, tactic-based) z3 solver; the incremental core times out on them
RLIMIT = 2_000_000_000  # the 32x32->64 multiplier equivalences need far more solver resource than the engine default

def mulmax_rewrite(V, shared_first):
    """Max(x, Mul(x, c)) is replaced by a LeakyReLU table (c >= 0) or Abs (c == -1) - the REAL convert_mul_max_to_abs_or_lrelu on real
    Operation/Tensor objects.  The table generator assumes that the product is on the input/output scale, so the rewrite is only sound when
    the input, the Mul output and the Max output are quantised identically: equality of quantisation is answered by free Booleans (one per
    tensor pair), the constant, the presence of a fused activation on the Mul and a second consumer of the Mul output are symbolic."""
    import ethosu.vela.tflite_graph_optimiser as go
    from ethosu.vela.operation import Op, Operation
    from ethosu.vela.tensor import Tensor, QuantizationParameters, create_const_tensor
    from ethosu.vela.data_type import DataType
    import numpy as np

    dtype = V.choice("dtype", ["int8", "uint8", "int16"])
    dt = getattr(DataType, dtype)

    def q():
        r = QuantizationParameters()
        r.scale_f32, r.zero_point = np.float32(0.5), 0
        return r

    def tens(name, d=dt):
        t = Tensor([1, 4, 4, 8], d, name)
        t.quantization = q()
        return t

    x, mo, out = tens("x"), tens("mul_out"), tens("out", dt if not bool(V.bool("ofm_other_dtype")) else (DataType.int16 if dtype != "int16" else DataType.int8))
    src = Operation(Op.Relu, "src")
    src.set_output_tensor(x)
    cval = V.int("const", -3, 3)
    c = create_const_tensor("c", [], dt, [1], quantization=q())
    c.values = cval
    mul = Operation(Op.Mul, "mul")
    for t in ((x, c) if shared_first else (c, x)):
        mul.add_input_tensor(t)
    mul.set_output_tensor(mo)
    fused = bool(V.bool("mul_has_fused_activation"))
    mul.activation = object() if fused else None
    mx = Operation(Op.Maximum, "Maximum")
    for t in ((x, mo) if shared_first else (mo, x)):
        mx.add_input_tensor(t)
    mx.set_output_tensor(out)
    second = bool(V.bool("mul_out_second_consumer"))
    if second:
        o2 = Operation(Op.Relu, "other")
        o2.add_input_tensor(mo)
        o2.set_output_tensor(tens("o2"))
    eq = {}

    def scaling_equal(a, b):
        k = tuple(sorted((a.name, b.name)))
        if k not in eq:
            eq[k] = V.bool("same_quantisation_%s_%s" % k)
        return eq[k]

    with core.shims((go, {"check_quantized_tens_scaling_equal": scaling_equal})):
        res = go.convert_mul_max_to_abs_or_lrelu(mx, None, None)
    if res.type == Op.Maximum:
        return None  # not rewritten: nothing to claim
    kx, km = ("out", "x"), ("mul_out", "x")
    both = z3.And(B(eq[kx]) if kx in eq else z3.BoolVal(False), B(eq[km]) if km in eq else z3.BoolVal(False))
    cl = [("rewritten only when input, Mul output and Max output are quantised identically", both),
          ("rewritten only for 8-bit tensors of one type", dtype in ("int8", "uint8") and out.dtype == dt),
          ("the Mul has no fused activation and no other consumer", (not fused) and (not second)),
          ("LeakyReLU for a non-negative constant, Abs for -1", z3.If(L(cval) >= 0, res.type == Op.LeakyRelu, z3.And(L(cval) == -1, res.type == Op.Abs))),
          ("the rewritten operation reads the shared input only", [t.name for t in res.inputs] == ["x"])]
    if res.type == Op.LeakyRelu:
        cl.append(("alpha is the constant", L(res.attrs["alpha"]) == L(cval)))
    return cl


FUNCS = {"exp_interval_exact": exp_interval_exact, "mulmax_rewrite": mulmax_rewrite, "kernel": kernel, "mbqm": mbqm, "exp_interval": exp_interval, "exp_neg": exp_neg, "exp_neg_struct": exp_neg_struct,
         "lrelu_table": lrelu_table, "quantize_fold": quantize_fold, "hardswish_table": hardswish_table, "quantize_scale": quantize_scale, "tanh_fn": tanh_fn,
         "lut_identity": lut_identity, "softmax_table": softmax_table, "lut8_wrapper": lut8_wrapper}


def instances(tier, seed):
    out = []
    quick = tier == "quick"
    for sf in (0, 1):
        out.append(dict(key="mulmax_rewrite/%s" % ("x_first" if sf else "x_second"), fn="mulmax_rewrite", params=dict(shared_first=sf)))
    # operand types that reach each helper (see ASSUMPTIONS); 16-bit helpers also see np.int16/np.int32 produced by other helpers
    for typ in ("pyint", "int64", "int32"):
        for typ2 in ("pyint", "int64") if typ != "pyint" else ("pyint",):
            # quick: the 32x32->64 product is an uninterpreted function shared by implementation and reference (the equivalence
            # does not depend on what the product is, only that both sides use the same one); thorough: exact, bit-blasted multiplier
            out.append(dict(key="kernel/srm32/%s_%s/%s" % (typ, typ2, "abstract-product" if quick else "exact"), fn="kernel",
                            params=dict(name="srm32", typ=typ, typ2=typ2, arg=None, abstract_mul=quick), weight=5000))
    if not quick:
        out.append(dict(key="kernel/srm32_mag/int64_pyint", fn="kernel", params=dict(name="srm32_mag", typ="int64", typ2="pyint", arg=None), weight=9000))
    for typ in ("pyint", "int64", "int32", "int16"):
        out.append(dict(key="kernel/srm16/%s" % typ, fn="kernel", params=dict(name="srm16", typ=typ, typ2="pyint", arg=None), weight=100))
        out.append(dict(key="kernel/sm16/%s" % typ, fn="kernel", params=dict(name="sm16", typ=typ, typ2="int64" if typ != "pyint" else "pyint", arg=None), weight=100))
    shifts = (0, 1, 2, 5, 15, 16, 30, 31) if quick else range(0, 32)
    for typ in ("pyint", "int64", "int32"):
        for e in shifts:
            out.append(dict(key="kernel/rdbp/%s/%d" % (typ, e), fn="kernel", params=dict(name="rdbp", typ=typ, typ2=None, arg=e)))
            out.append(dict(key="kernel/shl32/%s/%d" % (typ, e), fn="kernel", params=dict(name="shl32", typ=typ, typ2=None, arg=e)))
            if e <= 30:
                out.append(dict(key="kernel/srmbp/%s/%d" % (typ, e), fn="kernel", params=dict(name="srmbp", typ=typ, typ2=None, arg=e)))
        out.append(dict(key="kernel/downscale/%s" % typ, fn="kernel", params=dict(name="downscale", typ=typ, typ2=None, arg=None)))
        for src, dst in ((5, 0), (0, 5), (0, 0), (5, 1), (1, 5), (12, 0)):
            out.append(dict(key="kernel/rescale/%s/%d_%d" % (typ, src, dst), fn="kernel", params=dict(name="rescale", typ=typ, typ2=None, arg=[src, dst])))
    for typ in ("pyint", "int64", "int32", "int16"):
        for e in ((0, 1, 2, 7, 14, 15) if quick else range(0, 16)):
            out.append(dict(key="kernel/shl16/%s/%d" % (typ, e), fn="kernel", params=dict(name="shl16", typ=typ, typ2=None, arg=e)))
    for typ in TYPES:
        for shift in ((24, 28, 30, 31, 32, 38, 45) if quick else range(20, 50)):
            out.append(dict(key="mbqm/%s/%d" % (typ, shift), fn="mbqm", params=dict(typ=typ, shift=shift), weight=50))
    for typ in ("pyint", "int64", "int32"):
        if quick and typ == "int32":
            continue
        out.append(dict(key="exp_interval/%s" % typ, fn="exp_interval", params=dict(typ=typ), weight=3000))
    for sh in (0, 7, 13, 19):
        out.append(dict(key="exp_interval_exact/shift%d" % sh, fn="exp_interval_exact", params=dict(shift=sh), weight=3000))
        if quick:
            continue  # exp_on_negative_values (about 150 s of solver time per instance) is in the thorough tier only
        for band in (0, 1, 3, 4, 15, 16, 31, 32, 63, 64, 65, 96, 127):
            out.append(dict(key="exp_neg/%s/%d" % (typ, band), fn="exp_neg", params=dict(typ=typ, band=band), weight=4000))
    for typ in ("pyint", "int64", "int32"):
        for band in ((0, 3, 16, 31, 63, 64, 100, 127) if quick else range(0, 128)):
            out.append(dict(key="exp_neg_struct/%s/%d" % (typ, band), fn="exp_neg_struct", params=dict(typ=typ, band=band), weight=100))
    edge = [-128, -127, -1, 0, 1, 126, 127]
    for dtype in ("int8", "uint8"):
        qmin = 0 if dtype == "uint8" else -128
        all_codes = list(range(qmin, qmin + 256))
        for zp_in in ((qmin + 3, qmin + 128, qmin + 255) if quick else (qmin, qmin + 3, qmin + 77, qmin + 128, qmin + 200, qmin + 255)):
            for (ish, ash) in (((30, 33),) if quick else ((30, 33), (31, 31), (28, 36), (33, 30))):
                for scaled in (False, True):
                    for zptype in ("int64", "pyint"):
                        codes = sorted({qmin, qmin + 255, zp_in - 1, zp_in + 1, qmin + 64 + seed % 32} & set(all_codes)) if quick else all_codes
                        for code in codes:  # one table entry per instance: the per-entry body forks on rounding decisions
                            out.append(dict(key="lrelu_table/%s/zp%d/sh%d_%d/%s/%s/code%d" % (dtype, zp_in, ish, ash, "prelu" if scaled else "plain", zptype, code),
                                            fn="lrelu_table", params=dict(dtype=dtype, zp_in=zp_in, id_shift=ish, al_shift=ash, scaled=scaled, codes=[code], zptype=zptype)))
    SQRT2_Q30 = 1518500250  # a multiplier in the middle of [2^30, 2^31)
    for dtype in ("int8", "uint8"):
        qmin = 0 if dtype == "uint8" else -128
        # (a) both multipliers symbolic: decidable where the entry saturates or the shifts are small (out_shift <= 34)
        for relu_shift in ((27, 33) if quick else (25, 27, 29, 31, 32, 33, 35)):
            for out_shift in ((31, 34) if quick else (30, 31, 32, 34)):
                for code in ((qmin + 127 + seed % 3, qmin + 255) if quick else range(qmin, qmin + 256, 17)):
                    for zptype in ("int64", "pyint"):
                        for zpi in ((qmin + 125,) if quick else (qmin, qmin + 125, qmin + 255)):
                            out.append(dict(key="hardswish_table/%s/r%d_o%d/%s/zp%d/code%d" % (dtype, relu_shift, out_shift, zptype, zpi, code), fn="hardswish_table",
                                            params=dict(dtype=dtype, code=code, relu_shift=relu_shift, out_shift=out_shift, zptype=zptype, zp_in_value=zpi, abstract_mul=False), weight=30))
        # (b) one multiplier concrete, the other symbolic: the realistic, unsaturated regime (out_shift 34..37: ifm_scale/128/ofm_scale)
        fixes = [("out", SQRT2_Q30, ("int64", "pyint")), ("relu", SQRT2_Q30, ("pyint",)), ("out", 1 << 30, ("pyint",))]
        if not quick:
            fixes += [("relu", 1 << 30, ("pyint",)), ("out", (1 << 31) - 1, ("pyint",)), ("relu", (1 << 31) - 1, ("pyint",)), ("out", 1234567891, ("int64",)),
                      ("relu", 1987654321, ("int64",))]
        for relu_shift in ((27, 33) if quick else (25, 27, 29, 31, 32, 33, 35)):
            for out_shift in ((34, 37) if quick else (32, 34, 36, 37)):
                # quick: inputs (code - zero point) of -60, +3..5, +40, +130 with the enumerated input zero point qmin + 125
                for code in ((qmin + 65, qmin + 128 + seed % 3, qmin + 165, qmin + 255) if quick else range(qmin + seed % 17, qmin + 256, 17)):
                    for which, mult, zptypes in fixes:
                        for zptype in zptypes:
                            zpi = qmin + 125
                            out.append(dict(key="hardswish_table/%s/r%d_o%d/%s/zp%d/code%d/%s=%d" % (dtype, relu_shift, out_shift, zptype, zpi, code, which, mult),
                                            fn="hardswish_table", params=dict(dtype=dtype, code=code, relu_shift=relu_shift, out_shift=out_shift, zptype=zptype,
                                                                              zp_in_value=zpi, abstract_mul=False, fixed=[which, mult]), weight=30))
    for dtype in ("int8", "int16"):
        out.append(dict(key="quantize_scale/%s" % dtype, fn="quantize_scale", params=dict(dtype=dtype)))
    for left_shift in ((0, 5, 20, 24) if quick else range(0, 27)):
        out.append(dict(key="softmax_table/shift%d" % left_shift, fn="softmax_table", params=dict(left_shift=left_shift)))
    for site, kinds in (("convert_to_lut8", ("f32", "f64")), ("create_lut_8bit_op", ("f32",))):
        for dtype in ("int8", "uint8"):
            qmin = 0 if dtype == "uint8" else -128
            # quick: one code per site and type; thorough: 6 codes, two zero-point pairs, two output scales (a double-precision instance takes up to 10 min)
            for code in ((qmin + 100 + seed % 7,) if quick else range(qmin + seed % 51, qmin + 256, 51)):
                for sk in (kinds[:1] if quick else kinds):
                    for zi, zo in (((qmin + 3, qmin + 128),) if quick else ((qmin + 3, qmin + 128), (qmin + 255, qmin))):
                        # quick: a power-of-two output scale (the division is then exact and the query takes seconds); thorough adds 0.0123
                        for osc in ((0.5,) if quick else (0.0123, 0.5)):
                            out.append(dict(key="lut8_wrapper/%s/%s/code%d/%s/zp%d_%d/so%g" % (site, dtype, code, sk, zi, zo, osc), fn="lut8_wrapper",
                                            params=dict(site=site, dtype=dtype, code=code, scale_kind=sk, zp_in=zi, zp_out=zo, ofm_scale=osc), weight=2000))
    for n_sym in (1, 2, 3):
        out.append(dict(key="lut_identity/%d" % n_sym, fn="lut_identity", params=dict(n_sym=n_sym)))
    for which in ("tanh", "sigmoid"):
        out.append(dict(key="tanh_fn/%s" % which, fn="tanh_fn", params=dict(which=which)))
    for dtype in ("int8", "int16"):
        for shift in ((29, 31, 34) if quick else (26, 28, 29, 30, 31, 32, 34, 38)):
            for zptype in ("int64", "pyint"):
                out.append(dict(key="quantize_fold/%s/sh%d/%s" % (dtype, shift, zptype), fn="quantize_fold",
                                params=dict(dtype=dtype, shift=shift, n=1, zptype=zptype), weight=100))
    return out
