"""SNp: NumPy fixed-width integer scalar proxies (np.int8 ... np.int64, np.uint8 ...) over z3 bit-vectors.

Semantics follow the installed NumPy 2.x (NEP 50), validated differentially in symx.selfcheck:
  * SNp op Python int  -> the Python int is converted to the SNp's dtype (OverflowError if it does not fit), result has that dtype
  * SNp op SNp         -> NumPy type promotion (int8+int16 -> int16, int32+uint8 -> int32, uint8+int8 -> int16, ...)
  * arithmetic wraps around on overflow (NumPy only emits a RuntimeWarning for scalars)
  * // and % use floor semantics, >> is arithmetic for signed types, comparisons with Python ints are exact
"""
import builtins

import numpy as np
import z3

from . import core
from .core import SBool, SInt, Unmodelled, lift

_DT = {(8, True): np.int8, (16, True): np.int16, (32, True): np.int32, (64, True): np.int64,
       (8, False): np.uint8, (16, False): np.uint16, (32, False): np.uint32, (64, False): np.uint64}


def _info(dtype):
    ii = np.iinfo(dtype)
    return ii.bits, ii.min < 0


MUL_BOUND = None  # with ABSTRACT_MUL: magnitude bound of every abstracted product (set by the harness from its operand ranges)
ABSTRACT_MUL = False  # harness switch: symbolic x symbolic products become an uninterpreted function with a magnitude bound
_MULF = {}


def _eff_bits(x):
    """number of significant (signed) bits of a vector that is a sign extension of a narrower one"""
    x = z3.simplify(x)
    if z3.is_app(x) and x.decl().kind() == z3.Z3_OP_SIGN_EXT:
        return x.arg(0).size()
    return x.size()


def bvmul(a, b):
    """product of two equally wide vectors.  With ABSTRACT_MUL, a product of two non-constant vectors is replaced by an
    uninterpreted function MULw(a, b) constrained only by the magnitude bound that holds for operands of their effective widths
    (sound over-approximation: every property proved for all such functions holds for the real product)."""
    if not ABSTRACT_MUL or z3.is_bv_value(z3.simplify(a)) or z3.is_bv_value(z3.simplify(b)):
        return a * b
    w = a.size()
    if w not in _MULF:
        _MULF[w] = z3.Function("MUL%d" % w, z3.BitVecSort(w), z3.BitVecSort(w), z3.BitVecSort(w))
    r = _MULF[w](a, b)
    na, nb = _eff_bits(a), _eff_bits(b)
    bound = MUL_BOUND if MUL_BOUND is not None else ((1 << (na + nb - 2)) if na + nb <= w else None)
    if bound is not None and core.CTX is not None:
        core.CTX.assume(z3.And(r <= z3.BitVecVal(bound, w), r >= z3.BitVecVal(-bound, w)))
    return r


class SNp:
    __slots__ = ("bv", "bits", "signed")
    __sym__ = True

    def __init__(self, bv, bits, signed):
        self.bv, self.bits, self.signed = bv, bits, signed

    # ---- helpers
    @property
    def dtype(self):
        return np.dtype(_DT[(self.bits, self.signed)])

    def lo(self):
        return -(1 << (self.bits - 1)) if self.signed else 0

    def hi(self):
        return (1 << (self.bits - 1)) - 1 if self.signed else (1 << self.bits) - 1

    def as_int(self):
        return z3.BV2Int(self.bv, self.signed)

    def __sym_int__(self):
        return self.as_int()

    def __sym_toint__(self):
        r = SInt(self.as_int())
        return r

    def _ext(self, bits):
        if bits == self.bits:
            return self.bv
        if bits < self.bits:
            return z3.Extract(bits - 1, 0, self.bv)
        return z3.SignExt(bits - self.bits, self.bv) if self.signed else z3.ZeroExt(bits - self.bits, self.bv)

    def astype(self, bits, signed):
        """C-style cast (wraps)"""
        return SNp(self._ext(bits), bits, signed)

    @staticmethod
    def _promote(a, b):
        if a.signed == b.signed:
            return max(a.bits, b.bits), a.signed
        s, u = (a, b) if a.signed else (b, a)
        if s.bits > u.bits:
            return s.bits, True
        if u.bits >= 64:
            raise Unmodelled("int64/uint64 promotion to float64")
        return u.bits * 2, True

    def _coerce(self, o):
        """-> (lhs_bv, rhs_bv, bits, signed) in the result type, or None"""
        if isinstance(o, SNp):
            bits, signed = SNp._promote(self, o)
            return self._ext(bits), o._ext(bits), bits, signed
        if isinstance(o, np.integer):
            ob, os_ = _info(type(o))
            return self._coerce(SNp(z3.BitVecVal(int(o), ob), ob, os_))
        if isinstance(o, bool):
            o = int(o)
        if isinstance(o, int):
            if not (self.lo() <= o <= self.hi()):
                raise OverflowError("Python integer %d out of bounds for %s" % (o, self.dtype))
            return self.bv, z3.BitVecVal(o, self.bits), self.bits, self.signed
        if isinstance(o, SInt):
            c = o.concrete_or_none()
            if c is not None:
                return self._coerce(c)
            fits = SBool(z3.And(o.e >= self.lo(), o.e <= self.hi()))
            if not fits:
                raise OverflowError("Python integer out of bounds for %s" % self.dtype)
            return self.bv, z3.Int2BV(o.e, self.bits), self.bits, self.signed
        if isinstance(o, SBig):
            fits = SBool(z3.And(o.bv >= self.lo(), o.bv <= self.hi()))
            if not fits:
                raise OverflowError("Python integer out of bounds for %s" % self.dtype)
            return self.bv, z3.Extract(self.bits - 1, 0, o.bv), self.bits, self.signed
        return None

    def _bin(self, o, f, rev=False):
        c = self._coerce(o)
        if c is None:
            return NotImplemented
        a, b, bits, signed = c
        if rev:
            a, b = b, a
        return SNp(f(a, b, signed), bits, signed)

    # ---- arithmetic
    def __add__(s, o):
        return s._bin(o, lambda a, b, sg: a + b)

    def __radd__(s, o):
        return s._bin(o, lambda a, b, sg: a + b, True)

    def __sub__(s, o):
        return s._bin(o, lambda a, b, sg: a - b)

    def __rsub__(s, o):
        return s._bin(o, lambda a, b, sg: a - b, True)

    def __mul__(s, o):
        return s._bin(o, lambda a, b, sg: bvmul(a, b))

    def __rmul__(s, o):
        return s._bin(o, lambda a, b, sg: bvmul(a, b), True)

    @staticmethod
    def _floordiv(a, b, signed):
        if not signed:
            return z3.UDiv(a, b)
        q = a / b  # bvsdiv: truncation
        r = z3.SRem(a, b)
        adj = z3.And(r != 0, (r < 0) != (b < 0))
        return z3.If(adj, q - 1, q)

    @staticmethod
    def _mod(a, b, signed):
        if not signed:
            return z3.URem(a, b)
        r = z3.SRem(a, b)
        adj = z3.And(r != 0, (r < 0) != (b < 0))
        return z3.If(adj, r + b, r)

    def _zero_guard(s, o, rev):
        c = s._coerce(o)
        if c is None:
            return
        d = c[0] if rev else c[1]
        if SBool(d == 0):
            raise ZeroDivisionError("integer division by zero (NumPy returns 0 with a warning)")

    def __floordiv__(s, o):
        s._zero_guard(o, False)
        return s._bin(o, SNp._floordiv)

    def __rfloordiv__(s, o):
        s._zero_guard(o, True)
        return s._bin(o, SNp._floordiv, True)

    def __mod__(s, o):
        s._zero_guard(o, False)
        return s._bin(o, SNp._mod)

    def __rmod__(s, o):
        s._zero_guard(o, True)
        return s._bin(o, SNp._mod, True)

    def __neg__(s):
        return SNp(-s.bv, s.bits, s.signed)

    def __pos__(s):
        return s

    def __abs__(s):
        if not s.signed:
            return s
        return SNp(z3.If(s.bv < 0, -s.bv, s.bv), s.bits, s.signed)

    def __invert__(s):
        return SNp(~s.bv, s.bits, s.signed)

    def __and__(s, o):
        return s._bin(o, lambda a, b, sg: a & b)

    __rand__ = __and__

    def __or__(s, o):
        return s._bin(o, lambda a, b, sg: a | b)

    __ror__ = __or__

    def __xor__(s, o):
        return s._bin(o, lambda a, b, sg: a ^ b)

    __rxor__ = __xor__

    def __lshift__(s, o):
        return s._bin(o, lambda a, b, sg: a << b)

    def __rshift__(s, o):
        return s._bin(o, lambda a, b, sg: (a >> b) if sg else z3.LShR(a, b))

    def __rlshift__(s, o):
        return s._bin(o, lambda a, b, sg: a << b, True)

    def __rrshift__(s, o):
        return s._bin(o, lambda a, b, sg: (a >> b) if sg else z3.LShR(a, b), True)

    # ---- comparisons (exact against Python ints of any size)
    def _cmp(s, o, fs, fu, fint):
        if isinstance(o, SNp):
            bits, signed = SNp._promote(s, o)
            a, b = s._ext(bits), o._ext(bits)
            return SBool(fs(a, b) if signed else fu(a, b))
        if isinstance(o, np.integer):
            ob, os_ = _info(type(o))
            return s._cmp(SNp(z3.BitVecVal(int(o), ob), ob, os_), fs, fu, fint)
        if isinstance(o, bool):
            o = int(o)
        if isinstance(o, int):
            if s.lo() <= o <= s.hi():
                b = z3.BitVecVal(o, s.bits)
                return SBool(fs(s.bv, b) if s.signed else fu(s.bv, b))
            return SBool(fint(s.as_int(), z3.IntVal(o)))
        if isinstance(o, SInt):
            return SBool(fint(s.as_int(), o.e))
        if isinstance(o, SBig):
            return SBool(fs(s._ext(W), o.bv))  # exact comparison of the mathematical values
        return NotImplemented

    def __lt__(s, o):
        return s._cmp(o, lambda a, b: a < b, z3.ULT, lambda a, b: a < b)

    def __le__(s, o):
        return s._cmp(o, lambda a, b: a <= b, z3.ULE, lambda a, b: a <= b)

    def __gt__(s, o):
        return s._cmp(o, lambda a, b: a > b, z3.UGT, lambda a, b: a > b)

    def __ge__(s, o):
        return s._cmp(o, lambda a, b: a >= b, z3.UGE, lambda a, b: a >= b)

    def __eq__(s, o):
        r = s._cmp(o, lambda a, b: a == b, lambda a, b: a == b, lambda a, b: a == b)
        return False if r is NotImplemented else r

    def __ne__(s, o):
        r = s._cmp(o, lambda a, b: a != b, lambda a, b: a != b, lambda a, b: a != b)
        return True if r is NotImplemented else r

    def __hash__(s):
        return 0

    def __bool__(s):
        return bool(SBool(s.bv != 0))

    def __index__(s):
        v = z3.simplify(s.bv)
        if z3.is_bv_value(v):
            return v.as_signed_long() if s.signed else v.as_long()
        raise Unmodelled("symbolic numpy integer used as an index")

    __int__ = __index__

    def __repr__(s):
        return "SNp[%s](%s)" % (s.dtype, s.bv)

    def __format__(s, spec):
        return "<symnp>"


def cast(dtype):
    """np.intXX(x) constructor semantics for proxies: Python ints must fit (OverflowError), NumPy ints are C-cast"""
    bits, signed = _info(dtype)

    def ctor(x=0):
        if isinstance(x, SNp):
            return x.astype(bits, signed)
        if isinstance(x, SBig):
            lo = -(1 << (bits - 1)) if signed else 0
            hi = (1 << (bits - 1)) - 1 if signed else (1 << bits) - 1
            fits = SBool(z3.And(x.bv >= lo, x.bv <= hi))
            if not fits:
                raise OverflowError("Python integer out of bounds for %s" % np.dtype(dtype))
            return SNp(z3.Extract(bits - 1, 0, x.bv), bits, signed)
        if isinstance(x, SInt):
            c = x.concrete_or_none()
            if c is not None:
                return dtype(c)
            lo = -(1 << (bits - 1)) if signed else 0
            hi = (1 << (bits - 1)) - 1 if signed else (1 << bits) - 1
            fits = SBool(z3.And(x.e >= lo, x.e <= hi))
            if not fits:
                raise OverflowError("Python integer out of bounds for %s" % np.dtype(dtype))
            return SNp(z3.Int2BV(x.e, bits), bits, signed)
        return dtype(x)

    ctor.__name__ = np.dtype(dtype).name
    ctor._dtype = dtype
    return ctor


class _SNumpy:
    """numpy stand-in for fp_math-like modules: intXX constructors and iinfo understand proxies"""

    def __init__(self):
        for dt in _DT.values():
            setattr(self, np.dtype(dt).name, cast(dt))

    def iinfo(self, t):
        return np.iinfo(getattr(t, "_dtype", t))

    def __getattr__(self, n):
        return getattr(np, n)


SNUMPY = _SNumpy()


def sint_shim(x=0, *a):
    """int(x) inside fp_math-like modules: NumPy scalar -> Python int (bit-vector backed)"""
    if isinstance(x, SNp):
        return SBig(x._ext(W), x.bits + (0 if x.signed else 1))
    if isinstance(x, SBig):
        return x
    return core.sint(x, *a)


# ------------------------------------------------------------------------------------------------ SBig

W = 104


class SBig:
    """Python int backed by a W-bit signed bit-vector.  `nbits` is a static bound: the value lies in [-2^(nbits-1), 2^(nbits-1)).
    Every operation computes a sound bound for its result and refuses (Unmodelled) to exceed W, so the bit-vector never wraps and
    the proxy is exactly a mathematical integer.  Used where operands flow into NumPy fixed-width arithmetic, to keep whole
    queries inside the bit-vector theory (mixing Int2BV/BV2Int is what made the Int-backed proxy slow here)."""

    __slots__ = ("bv", "nbits")
    __sym__ = True

    def __init__(self, bv, nbits):
        if nbits > W:
            raise Unmodelled("SBig value may exceed %d bits" % W)
        self.bv, self.nbits = bv, max(nbits, 1)

    @staticmethod
    def of(x):
        if isinstance(x, SBig):
            return x
        if isinstance(x, bool):
            x = int(x)
        if isinstance(x, int):
            return SBig(z3.BitVecVal(x, W), x.bit_length() + 1)
        if isinstance(x, np.integer):
            return SBig.of(int(x))
        return None

    def to_bytes(s, length, byteorder="big", *, signed=False):
        """int.to_bytes: a list of `length` byte values (each an SBig in 0..255); OverflowError when the value does not fit, as CPython raises"""
        lo, hi = (-(1 << (8 * length - 1)), (1 << (8 * length - 1)) - 1) if signed else (0, (1 << (8 * length)) - 1)
        fits = core.SBool(z3.And(s.bv >= z3.BitVecVal(lo, W), s.bv <= z3.BitVecVal(hi, W)))
        if not fits:
            raise OverflowError("int too big to convert")
        out = [SBig(z3.ZeroExt(W - 8, z3.Extract(8 * i + 7, 8 * i, s.bv)), 9) for i in range(length)]
        return out if byteorder == "little" else out[::-1]

    def _bin(s, o, f, nb, rev=False):
        if isinstance(o, SNp):
            return NotImplemented
        o = SBig.of(o)
        if o is None:
            return NotImplemented
        a, b = (o, s) if rev else (s, o)
        return SBig(f(a.bv, b.bv), nb(a.nbits, b.nbits))

    def __add__(s, o):
        return s._bin(o, lambda a, b: a + b, lambda m, n: max(m, n) + 1)

    def __radd__(s, o):
        return s._bin(o, lambda a, b: a + b, lambda m, n: max(m, n) + 1, True)

    def __sub__(s, o):
        return s._bin(o, lambda a, b: a - b, lambda m, n: max(m, n) + 1)

    def __rsub__(s, o):
        return s._bin(o, lambda a, b: a - b, lambda m, n: max(m, n) + 1, True)

    def __mul__(s, o):
        return s._bin(o, lambda a, b: a * b, lambda m, n: m + n)

    def __rmul__(s, o):
        return s._bin(o, lambda a, b: a * b, lambda m, n: m + n, True)

    def _zg(s, d):
        d = SBig.of(d)
        if d is not None and SBool(d.bv == 0):
            raise ZeroDivisionError("integer division or modulo by zero")

    def __floordiv__(s, o):
        s._zg(o)
        return s._bin(o, lambda a, b: SNp._floordiv(a, b, True), lambda m, n: m + 1)

    def __rfloordiv__(s, o):
        s._zg(s)
        return s._bin(o, lambda a, b: SNp._floordiv(a, b, True), lambda m, n: m + 1, True)

    def __mod__(s, o):
        s._zg(o)
        return s._bin(o, lambda a, b: SNp._mod(a, b, True), lambda m, n: n + 1)

    def __rmod__(s, o):
        s._zg(s)
        return s._bin(o, lambda a, b: SNp._mod(a, b, True), lambda m, n: n + 1, True)

    def __neg__(s):
        return SBig(-s.bv, s.nbits + 1)

    def __pos__(s):
        return s

    def __abs__(s):
        return SBig(z3.If(s.bv < 0, -s.bv, s.bv), s.nbits + 1)

    def __invert__(s):
        return SBig(~s.bv, s.nbits)

    def __and__(s, o):
        if isinstance(o, int) and not isinstance(o, bool) and o >= 0:
            return SBig(s.bv & z3.BitVecVal(o, W), o.bit_length() + 1)
        return s._bin(o, lambda a, b: a & b, lambda m, n: max(m, n))

    __rand__ = __and__

    def __or__(s, o):
        return s._bin(o, lambda a, b: a | b, lambda m, n: max(m, n))

    __ror__ = __or__

    def __xor__(s, o):
        return s._bin(o, lambda a, b: a ^ b, lambda m, n: max(m, n))

    __rxor__ = __xor__

    def _k(s, k):
        if isinstance(k, SBig):
            v = z3.simplify(k.bv)
            if z3.is_bv_value(v):
                return v.as_signed_long()
        if isinstance(k, int):
            return k
        raise Unmodelled("shift by a symbolic amount")

    def __lshift__(s, k):
        if isinstance(k, SNp):
            return NotImplemented
        k = s._k(k)
        return SBig(s.bv << k, s.nbits + k)

    def __rshift__(s, k):
        if isinstance(k, SNp):
            return NotImplemented
        k = s._k(k)
        return SBig(s.bv >> k, max(s.nbits - k, 1))

    def __rlshift__(s, o):
        return SBig.of(o) << s._k(s)

    def __rrshift__(s, o):
        return SBig.of(o) >> s._k(s)

    def _cmp(s, o, f):
        if isinstance(o, SNp):
            return NotImplemented
        o = SBig.of(o)
        if o is None:
            return NotImplemented
        return SBool(f(s.bv, o.bv))

    def __lt__(s, o):
        return s._cmp(o, lambda a, b: a < b)

    def __le__(s, o):
        return s._cmp(o, lambda a, b: a <= b)

    def __gt__(s, o):
        return s._cmp(o, lambda a, b: a > b)

    def __ge__(s, o):
        return s._cmp(o, lambda a, b: a >= b)

    def __eq__(s, o):
        r = s._cmp(o, lambda a, b: a == b)
        return False if r is NotImplemented and not isinstance(o, SNp) else r

    def __ne__(s, o):
        r = s._cmp(o, lambda a, b: a != b)
        return True if r is NotImplemented and not isinstance(o, SNp) else r

    def __hash__(s):
        return 0

    def __bool__(s):
        return bool(SBool(s.bv != 0))

    def __index__(s):
        v = z3.simplify(s.bv)
        if z3.is_bv_value(v):
            return v.as_signed_long()
        raise Unmodelled("symbolic Python int used as an index")

    __int__ = __index__

    def __sym_toint__(s):
        return s

    def as_int(s):
        return z3.BV2Int(s.bv, True)

    def __sym_int__(s):
        return s.as_int()

    def __repr__(s):
        return "SBig(%s)" % s.bv

    def __format__(s, spec):
        return "<symint>"


def wide(x):
    """any integer result (SBig, SNp, SInt-free) -> W-bit signed vector of its mathematical value"""
    if isinstance(x, SBig):
        return x.bv
    if isinstance(x, SNp):
        return x._ext(W)
    if isinstance(x, (int, np.integer)):
        return z3.BitVecVal(int(x), W)
    raise Unmodelled("wide(%r)" % (x,))


def _sym_big(V, name, lo, hi):
    bits = max(abs(lo), abs(hi) + 1).bit_length() + 1
    V.decls[name] = ("big", lo, hi)
    v = z3.BitVec(name, bits)
    core.CTX.assume(z3.And(v >= lo, v <= hi))
    return SBig(z3.SignExt(W - bits, v), bits)


def _conc_big(V, name, lo, hi):
    bits = max(abs(lo), abs(hi) + 1).bit_length() + 1
    v = V.values.get(name)
    raw = v["bv"] if isinstance(v, dict) else int(v if v is not None else lo)
    raw &= (1 << bits) - 1
    if raw >= 1 << (bits - 1):
        raw -= 1 << bits
    if not lo <= raw <= hi:
        raise core.PathAbort("replay value outside range")
    return raw


core.register_kind("big", _sym_big, _conc_big)


# ---- value providers


def _sym_np(V, name, dtype_name):
    dt = getattr(np, dtype_name)
    bits, signed = _info(dt)
    V.decls[name] = ("np", dtype_name)
    return SNp(z3.BitVec(name, bits), bits, signed)


def _conc_np(V, name, dtype_name):
    dt = getattr(np, dtype_name)
    bits, signed = _info(dt)
    v = V.values.get(name)
    raw = v["bv"] if isinstance(v, dict) else int(v or 0)
    raw &= (1 << bits) - 1
    if signed and raw >= 1 << (bits - 1):
        raw -= 1 << bits
    return dt(raw)


core.register_kind("np", _sym_np, _conc_np)
