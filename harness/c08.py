"""C08 - encoded weight and scale tensors cover each channel exactly once (partial: everything but the C codec itself).

encode : the REAL encode_weight_and_scale_tensor loop with the C codec (encode_weights) replaced by a stub that returns a stream of
         SYMBOLIC length (any multiple of 16) and records which channels it was handed; bytearray/len are length-only stand-ins.
         Claims: every output channel of every depth slice goes to exactly one core (scales and weights agree), encoded ranges are
         16-byte aligned, disjoint and increasing, scale_bytes == 10 * channels, the recorded double-buffer sizes bound every slice
         that will occupy that buffer, and the REAL create_weights / create_dma_op address arithmetic for a buffered slice stays
         inside a buffer of that size with src/dest lengths equal.
cache  : two encode requests for the same weights with different depth slicing: the tensor returned for the second request
         describes the second request's slices.
bias   : encode_bias packs the 80-bit record [0:2 | shift:6 | scale:32 | bias:40] little-endian for every signed 40-bit bias.
"""
import numpy as np
import z3

from symx import core, npint
from symx.core import SInt, SBool, L, B

EXPLANATION = "C08: encoder bookkeeping with symbolic substream lengths, channel assignment, cache reuse, 80-bit scale record."
SHIMS = ["weight_compressor.encode_weights -> stream of symbolic length (multiple of 16), records the channels it is given",
         "weight_compressor.bytearray / len -> length-only byte stream stand-ins", "weight_compressor._prepare_scale_and_bias -> channel-tagged scales/biases"]
ASSUMPTIONS = ["the codec returns a non-empty stream whose length is a multiple of 16 (asserted by the encoder loop itself)",
               "intermediate depth-slice boundaries are multiples of the core count (propose_weight_buffering rounds slices to the OFM micro-block depth)"]
OUTSIDE = ["that the bytes of a stream decode to the channels' weights (C07, C codec)", "scheduler-side choice of depth slices and buffers"]
BOUNDS = {"encode": "OFM depth <= 48, <= 4 depth slices from a fixed set of slicings, 1 and 2 cores, stream lengths symbolic in [16, 2^20]"}

SLICINGS = [[0, 16], [0, 16, 32], [0, 16, 48], [0, 8, 24, 40], [0, 32, 40], [0, 16, 32, 48], [0, 2, 4, 7], [0, 6, 7]]


def ENCODED():
    import ethosu.vela.weight_compressor as wc
    import ethosu.vela.high_level_command_to_npu_op as h2n
    import ethosu.vela.npu_performance  # noqa (import cycle)
    import ethosu.vela.scheduler as sch

    return [wc.encode_weight_and_scale_tensor, wc.encode_bias, wc.core_deinterleave, wc.create_weight_compression_config,
            h2n.create_weights, h2n.create_dma_op, sch.Scheduler.propose_weight_buffering, wc._prepare_scale_and_bias,
            __import__("ethosu.vela.scaling", fromlist=["x"]).quantise_scale, wc.NpuWeightTensor.max_range_bytes, wc.NpuWeightTensor.double_buffer_size]


class _Stream:
    """length-only stand-in for bytearray"""

    def __init__(self, n=0):
        self.n = n

    def extend(self, other):
        self.n = self.n + _slen(other)

    def __len__(self):
        raise core.Unmodelled("len() of a symbolic stream without the shim")


def _slen(x):
    if isinstance(x, _Stream):
        return x.n
    return len(x)


_NOARG = object()


def _bytearray(x=_NOARG):
    if x is _NOARG:
        return _Stream(0)  # the growing encoded stream
    if isinstance(x, SInt):
        return _Stream(x)  # padding of symbolic length
    return bytearray(x)


class _Obj:
    def __init__(self, **kw):
        self.__dict__.update(kw)


def _setup(V, accel, depth, tag=""):
    from ethosu.vela.operation import Op, Kernel
    from ethosu.vela.data_type import DataType
    from ethosu.vela.tensor import MemArea, MemType
    from harness.c04 import arch_for

    arch = arch_for(accel)
    values = np.arange(depth, dtype=np.int8).reshape(1, 1, 1, depth)  # weight value == its output channel
    wt = _Obj(name="w" + tag, values=values, value_id="wid" + tag, equivalence_id="weq", quantization=_Obj(scale_f32=1.0, zero_point=0), mem_area=MemArea.Dram,
              mem_type=MemType.Permanent_NPU)
    import types
    from ethosu.vela.operation import Operation

    cons = _Obj(ifm=_Obj(quantization=None), ofm=_Obj(quantization=None), forced_input_quantization=None, forced_output_quantization=None)
    cons.get_input_quantization = types.MethodType(Operation.get_input_quantization, cons)  # the real getters, nothing forced, tensors unquantised
    cons.get_output_quantization = types.MethodType(Operation.get_output_quantization, cons)
    st = _Obj(name="b" + tag, value_id="bid" + tag, equivalence_id="beq", consumer_list=[cons], mem_area=MemArea.Dram, mem_type=MemType.Permanent_NPU, element_size_bytes=0)
    op = _Obj(type=Op.Conv2DBias, inputs=[_Obj(dtype=DataType.int8)], explicit_scaling=None)
    return arch, op, wt, st, Kernel(1, 1)


def encode(V, accel, slicing, block_depth):
    import ethosu.vela.weight_compressor as wc
    import ethosu.vela.high_level_command_to_npu_op as h2n
    from ethosu.vela.high_level_command_stream import Box, DMA
    from ethosu.vela.tensor import MemType

    depth = slicing[-1]
    arch, op, wt, st, kernel = _setup(V, accel, depth)
    ncores = arch.ncores
    seen_w, seen_s, lens = [], [], []

    def fake_encode_weights(accelerator, weights_volume, dilation_xy, ifm_bitdepth, ofm_block_depth, is_depthwise, block_traversal):
        chans = sorted(int(c) for c in weights_volume[:, 0, 0, 0])
        seen_w.append(chans)
        n = V.int("len%d" % len(lens), 16, 1 << 20)
        V.assume(L(n) % 16 == 0)
        lens.append(n)
        return (_Stream(n) if V.symbolic else bytearray(int(n))), None

    real_eb = wc.encode_bias

    def fake_encode_bias(bias, scale, shift):
        seen_s.append((int(bias), int(scale)))
        return real_eb(bias, scale, shift)

    saved = (wc.encode_weights, wc.encode_bias, wc._prepare_scale_and_bias, dict(wc.CompressedWeightCache.cache))
    wc.CompressedWeightCache.cache.clear()
    wc.encode_weights, wc.encode_bias = fake_encode_weights, fake_encode_bias
    wc._prepare_scale_and_bias = lambda a, t, e: ([(c, 0) for c in range(depth)], list(range(depth)))
    bc = _Obj(ofm_block=_Obj(depth=block_depth))
    try:
        with core.shims((wc, {"bytearray": _bytearray, "len": _slen, "int": core.IntShim})):
            wtens, stens = wc.encode_weight_and_scale_tensor(arch, op, wt, st, kernel, bc, list(slicing))
    except AssertionError as e:
        return [("encoder raised AssertionError: %s" % e, False)]
    finally:
        wc.encode_weights, wc.encode_bias, wc._prepare_scale_and_bias = saved[:3]
        wc.CompressedWeightCache.cache.clear()
        wc.CompressedWeightCache.cache.update(saved[3])
    cl = []
    rngs = wtens.encoded_ranges
    # ---- channel assignment
    call = 0
    prev_end = L(0)
    slice_extent = []
    for i, d0 in enumerate(slicing[:-1]):
        d1 = slicing[i + 1]
        got_w, got_s = [], []
        start_of_slice = None
        end_of_slice = None
        for c in range(min(ncores, depth)):
            cbd = (block_depth + ncores - 1 - c) // ncores
            if cbd == 0:
                continue
            key = wc.WeightKey(c, d0)
            cl.append(("range recorded for core %d slice %d" % (c, d0), key in rngs))
            if key not in rngs:
                continue
            r = rngs[key]
            want = list(range(d0 + c, d1, ncores))
            w_ch = seen_w[call] if call < len(seen_w) else None
            call += 1
            cl.append(("weights of core %d slice [%d,%d) are its interleaved channels" % (c, d0, d1), w_ch == want))
            got_w += w_ch or []
            cl.append(("scale_bytes == 10 bytes per channel (core %d slice %d)" % (c, d0), L(r.scale_bytes) == 10 * len(want)))
            cl.append(("range aligned, in order, non-overlapping (core %d slice %d)" % (c, d0),
                       z3.And(L(r.offset) % 16 == 0, L(r.offset) >= prev_end, L(r.weight_offset) % 16 == 0, L(r.weight_offset) >= L(r.scale_bytes),
                              L(r.weight_bytes) > 0)))
            prev_end = L(r.offset) + L(r.weight_offset) + L(r.weight_bytes)
            if start_of_slice is None:
                start_of_slice = L(r.offset)
            end_of_slice = prev_end
        cl.append(("every channel of slice [%d,%d) is encoded by exactly one core" % (d0, d1), sorted(got_w) == list(range(d0, d1))))
        slice_extent.append((start_of_slice, end_of_slice))
    sc = [b for b, _ in seen_s]
    cl.append(("every channel has exactly one scale/bias record, tagged consistently", sorted(sc) == list(range(depth)) and all(b == s for b, s in seen_s)))
    cl.append(("buffer length covers the last range", L(_slen(wtens.buffer)) >= prev_end))
    # ---- double-buffer sizes bound every slice assigned to that buffer; real create_dma_op / create_weights on a buffered slice
    dbs = wtens.double_buffer_sizes
    with core.shims((wc, {"max": core.smax, "sum": core.ssum})):
        largest, both = wtens.max_range_bytes(), wtens.double_buffer_size()  # the REAL methods the scheduler sizes the SRAM buffer(s) by
    cl.append(("double_buffer_size() is at least the two recorded buffer sizes together", L(both) >= L(dbs[0]) + L(dbs[1])))
    for i, (s0, e0) in enumerate(slice_extent):
        if s0 is None:
            continue
        cl.append(("max_range_bytes() >= bytes of slice %d (all cores' ranges with their alignment: a single SRAM weight buffer is sized by it and receives every slice)" % i,
                   L(largest) >= e0 - s0))
        cl.append(("double_buffer_sizes[%d] >= bytes of slice %d" % (i % 2, i), L(dbs[i % 2]) >= e0 - s0))
        base_src = V.int("src_base", 0, 1 << 30)
        base_buf = V.int("buf_base", 0, 1 << 30)
        V.assume(z3.And(L(base_src) % 16 == 0, L(base_buf) % 16 == 0))
        wtens_addr = _Obj(address=base_src, encoded_ranges=rngs, mem_type=MemType.Permanent_NPU, purpose=wtens.purpose, src_tensor=None, name="w")
        buf = _Obj(address=base_buf, mem_type=MemType.Scratch_fast, purpose=wtens.purpose, src_tensor=wtens_addr, name="buf", encoded_ranges={},
                   storage_size=lambda i=i: dbs[i % 2])  # the SRAM buffer the scheduler creates for this parity: as large as its largest slice
        box = Box([0, 0, 0, slicing[i]], [1, 1, 1, slicing[i + 1]])
        with core.shims((h2n, {"int": core.IntShim})):
            dma = h2n.create_dma_op(_Obj(in_tensor=wtens_addr, out_tensor=buf, box=box), arch)
            ws, bs = h2n.create_weights(buf, box, None, arch)
        cl.append(("slice %d: DMA source/destination lengths agree and are 16-byte multiples" % i,
                   z3.And(L(dma.src.length) == L(dma.dest.length), L(dma.src.length) % 16 == 0)))
        cl.append(("slice %d: DMA fits the double buffer of the recorded size" % i, L(dma.dest.length) <= L(dbs[i % 2])))
        cl.append(("slice %d: DMA reads exactly this slice from the source tensor (not the buffer's size: a smaller slice would be over-read past the tensor)" % i,
                   z3.And(L(dma.src.address) == L(base_src) + s0, L(dma.src.length) == e0 - s0)))
        for r in ws + bs:
            cl.append(("slice %d: weight/scale range inside the double buffer" % i,
                       z3.And(L(r.address) >= L(base_buf), L(r.address) + L(r.length) <= L(base_buf) + L(dbs[i % 2]), L(r.address) % 16 == 0)))
    return cl


def cache(V, accel, first, second):
    import ethosu.vela.weight_compressor as wc

    depth = first[-1]
    arch, op, wt, st, kernel = _setup(V, accel, depth)
    saved = (wc.encode_weights, wc._prepare_scale_and_bias, dict(wc.CompressedWeightCache.cache))
    wc.CompressedWeightCache.cache.clear()
    wc.encode_weights = lambda *a, **k: ((_Stream(16) if V.symbolic else bytearray(16)), None)
    wc._prepare_scale_and_bias = lambda a, t, e: ([(c, 0) for c in range(depth)], list(range(depth)))
    bc = _Obj(ofm_block=_Obj(depth=16))
    try:
        with core.shims((wc, {"bytearray": _bytearray, "len": _slen, "int": core.IntShim})):
            t1, _ = wc.encode_weight_and_scale_tensor(arch, op, wt, st, kernel, bc, list(first))
            t2, _ = wc.encode_weight_and_scale_tensor(arch, op, wt, st, kernel, bc, list(second))
    finally:
        wc.encode_weights, wc._prepare_scale_and_bias = saved[:2]
        wc.CompressedWeightCache.cache.clear()
        wc.CompressedWeightCache.cache.update(saved[2])
    want = sorted({d for d in second[:-1]})
    got = sorted({k.depth for k in t2.encoded_ranges})
    return [("tensor returned for the second request describes the second request's depth slices", got == want)]


def cache_key(V, accel, diff):
    """A cached encoding may only be reused when a fresh encoding would be byte-identical.  Two requests in one process; the second differs from
    the first in exactly one input of the codec (`diff`), or in nothing.  The second weight tensor is a CLONE of the first as the graph optimiser
    makes them (Tensor.clone keeps equivalence_id; a rewrite that changes the values, e.g. fixup_strided_conv, refreshes value_id only), so every
    identity attribute that is NOT an identity of the values is equal across the two requests.  The codec is a stub that records what it was asked
    to encode: the tensor returned for the second request must have been encoded from the second request's inputs."""
    import ethosu.vela.weight_compressor as wc
    from ethosu.vela.operation import Kernel, Op

    depth = 32
    arch, op, wt, st, kernel = _setup(V, accel, depth)
    wt2 = _Obj(**wt.__dict__)
    op2 = _Obj(**op.__dict__)
    kernel2, bd2, offs2 = kernel, 16, [0, 16, 32]
    if diff == "values":
        wt2.values = (wt.values + 1).astype(wt.values.dtype)
        wt2.value_id = "wid_rewritten"
    elif diff == "dilation":
        kernel2 = Kernel(1, 1, dilation_x=2, dilation_y=1)
    elif diff == "block_depth":
        bd2 = 8
    elif diff == "offsets":
        offs2 = [0, 8, 32]
    elif diff == "block_type":
        op2.type = Op.FullyConnected
        wt2.values = wt.values.reshape(1, 1, 1, depth)
    calls = []

    def fake_encode_weights(accelerator, weights_volume, dilation_xy, ifm_bitdepth, ofm_block_depth, is_depthwise, block_traversal):
        calls.append((int(weights_volume.reshape(-1)[0]) if weights_volume.size else None, tuple(dilation_xy), int(ofm_block_depth)))
        return (_Stream(16) if V.symbolic else bytearray(16)), None

    saved = (wc.encode_weights, wc._prepare_scale_and_bias, dict(wc.CompressedWeightCache.cache))
    wc.CompressedWeightCache.cache.clear()
    wc.encode_weights = fake_encode_weights
    wc._prepare_scale_and_bias = lambda a, t, e: ([(c, 0) for c in range(depth)], list(range(depth)))
    V.int("unused", 0, 0)
    try:
        with core.shims((wc, {"bytearray": _bytearray, "len": _slen, "int": core.IntShim})):
            t1, _ = wc.encode_weight_and_scale_tensor(arch, op, wt, st, kernel, _Obj(ofm_block=_Obj(depth=16)), [0, 16, 32])
            n1 = len(calls)
            t2, _ = wc.encode_weight_and_scale_tensor(arch, op2, wt2, st, kernel2, _Obj(ofm_block=_Obj(depth=bd2)), list(offs2))
    finally:
        wc.encode_weights, wc._prepare_scale_and_bias = saved[:2]
        wc.CompressedWeightCache.cache.clear()
        wc.CompressedWeightCache.cache.update(saved[2])
    second = calls[n1:]
    if diff == "none":
        return [("an identical request is served from the cache", t2 is t1 and not second)]
    cl = [("a request that differs in %s is encoded afresh" % diff, t2 is not t1 and len(second) > 0)]
    if second:
        if diff == "values":
            cl.append(("the fresh encoding uses the second tensor's values", all(c[0] == int(wt2.values.reshape(-1)[0]) for c in second[:1])))
        if diff == "dilation":
            cl.append(("the fresh encoding uses the second request's dilation", all(c[1] == (2, 1) for c in second)))
        if diff == "block_depth":
            cl.append(("the fresh encoding uses the second request's block depth", all(c[2] in {(8 + arch.ncores - 1 - core) // arch.ncores for core in range(arch.ncores)} for c in second)))  # split over the cores
    return cl


def scale_cache_key(V, diff):
    """packed scale records are reused only for the same bias values AND the same input and output scales: two requests with the same weights
    (the weight stream is served from the cache) whose scale tensor differs in exactly one of {bias values (value_id), IFM scale, OFM scale}, or in
    nothing.  The scales are symbolic floats; the second request must go through the scale derivation again unless nothing differs."""
    import ethosu.vela.weight_compressor as wc
    from symx import fp

    depth = 32
    arch, op, wt, st, kernel = _setup(V, "Ethos_U55_128", depth)
    s_in, s_out = V.extra("float", "ifm_scale", "f32"), V.extra("float", "ofm_scale", "f32")
    d_in, d_out = V.extra("float", "other_ifm_scale", "f32"), V.extra("float", "other_ofm_scale", "f32")
    pos = lambda x: z3.And(z3.fpGT(fp.F(x), z3.FPVal(2.0 ** -20, fp.F32)), z3.fpLT(fp.F(x), z3.FPVal(64.0, fp.F32)))  # noqa: E731
    if V.symbolic:
        V.assume(z3.And(pos(s_in), pos(s_out), pos(d_in), pos(d_out), z3.Not(z3.fpEQ(fp.F(d_in), fp.F(s_in))), z3.Not(z3.fpEQ(fp.F(d_out), fp.F(s_out)))))
    elif not (float(d_in) != float(s_in) and float(d_out) != float(s_out) and all(2.0 ** -20 < float(x) < 64.0 for x in (s_in, s_out, d_in, d_out))):
        raise core.PathAbort("replay values outside the assumptions")

    def scale_tensor(ifm_scale, ofm_scale, vid):
        from harness.c09 import real_quant_methods

        cons = _Obj()
        real_quant_methods(V, cons, _Obj(scale_f32=ifm_scale, zero_point=0), _Obj(scale_f32=ofm_scale, zero_point=0))
        return _Obj(**dict(st.__dict__, consumer_list=[cons], value_id=vid))

    st1 = scale_tensor(s_in, s_out, "bias_values_1")
    st2 = scale_tensor(d_in if diff == "ifm_scale" else s_in, d_out if diff == "ofm_scale" else s_out, "bias_values_2" if diff == "bias_values" else "bias_values_1")
    prepared = []

    def fake_prepare(a, t, e):
        prepared.append(t)
        return [(c, 0) for c in range(depth)], list(range(depth))

    saved = (wc.encode_weights, wc._prepare_scale_and_bias, dict(wc.CompressedWeightCache.cache))
    wc.CompressedWeightCache.cache.clear()
    wc.encode_weights = lambda *a, **k: ((_Stream(16) if V.symbolic else bytearray(16)), None)
    wc._prepare_scale_and_bias = fake_prepare
    bc = _Obj(ofm_block=_Obj(depth=16))
    try:
        with core.shims((wc, {"bytearray": _bytearray, "len": _slen, "int": core.IntShim})):
            t1, _ = wc.encode_weight_and_scale_tensor(arch, op, wt, st1, kernel, bc, [0, 16, 32])
            n1 = len(prepared)
            t2, s2 = wc.encode_weight_and_scale_tensor(arch, op, wt, st2, kernel, bc, [0, 16, 32])
    finally:
        wc.encode_weights, wc._prepare_scale_and_bias = saved[:2]
        wc.CompressedWeightCache.cache.clear()
        wc.CompressedWeightCache.cache.update(saved[2])
    again = len(prepared) > n1 and prepared[-1] is st2
    if diff == "none":
        return [("identical scale request: weights and scales served from the cache", t2 is t1 and s2 is None and not again)]
    return [("a request that differs in %s reuses the weight stream but derives and packs its own scale records" % diff, again and t2 is t1 and s2 is not None)]


def flash_contents(V, nops):
    """the constant tensor of the output model holds, at the address the registers point to, the bytes of EVERY operation's weight stream and of
    every operation's scale records: the REAL serialise_npu_subgraph_into_tensors on a stand-in subgraph of `nops` operations whose encoded
    tensors are, per operation, chosen among: own weights+scales tensor, the previous operation's cached tensor (same object), or cached weights
    plus a stand-alone scale tensor (weight_compression_config None).  Every choice pattern is explored; bytes and addresses are concrete."""
    import numpy as np
    import ethosu.vela.npu_serialisation as ser
    from ethosu.vela.nn_graph import PassPlacement
    from harness.c04 import arch_for

    arch = arch_for("Ethos_U55_128")
    addr = [0]
    made = []

    def enc(tag, cfg):
        n = 32
        t = _Obj(name=tag, address=addr[0], buffer=np.full(n, len(made) + 1, dtype=np.uint8), weight_compression_config=cfg, storage_size=lambda: n)
        addr[0] += n
        made.append(t)
        return t

    ops, infos = [], {}
    prev_w = None
    for i in range(nops):
        kind = V.choice("op%d_encoding" % i, ["own", "shared", "own_scales"] if prev_w is not None else ["own"])
        if kind == "own":
            w, sc = enc("w%d" % i, ("cfg", i)), None
            prev_w = w
        elif kind == "shared":
            w, sc = prev_w, None
        else:
            w, sc = prev_w, enc("s%d" % i, None)
        sop = _Obj(parent_op=_Obj(get_ifm_ifm2_weights_biases_ofm=lambda: (None, None, None, None, None), activation_lut=None), parent_ps=None, name="op%d" % i)
        ops.append(sop)
        infos[sop] = _Obj(npu_weights_tensor=w, npu_scales_tensor=sc)
    sg = _Obj(placement=PassPlacement.Npu, memory_used={arch.permanent_storage_mem_area: addr[0], arch.feature_map_storage_mem_area: 0}, register_command_stream=[],
              name="sg", sched_ops=ops, schedule=_Obj(cost_map=infos))
    ser.serialise_npu_subgraph_into_tensors(sg, arch, None, None, None)
    flash = sg.flash_tensor.values
    cl = []
    for t in made:
        cl.append(("flash bytes at the address of %s are its encoded bytes" % t.name, bool(np.array_equal(flash[t.address:t.address + 32], t.buffer))))
    return cl


def rewrite_value_id(V, ifm_depth, kw):
    """the encoding cache identifies weights by value_id: a rewrite that changes a weight tensor's VALUES (fixup_strided_conv pads and reshapes the
    filter of a stride-2 convolution with a shallow IFM) must give it a new value_id - its twin clone of the same constant, used by a convolution
    that is not rewritten, keeps the old one.  The REAL fixup_strided_conv on real Operation/Tensor objects built the way the reader builds them
    (one clone per consumer); concrete geometry per instance (a wiring lemma)."""
    import numpy as np
    import ethosu.vela.tflite_graph_optimiser as go
    from ethosu.vela.operation import Op, Padding
    from ethosu.vela.data_type import DataType
    from ethosu.vela.test import testutil

    V.int("unused", 0, 0)
    arch = testutil.create_arch()
    op = testutil.create_op_with_quant_tensors(Op.Conv2DBias, [1, 8, 8, ifm_depth], [1, 4, 4, 8], weights_shape=[3, kw, ifm_depth, 8], datatype=DataType.int8)
    op.attrs.update({"strides": (1, 2, 2, 1), "stride_w": 2, "stride_h": 2, "padding": Padding.SAME, "dilation": (1, 1, 1, 1)})
    op.op_index = 0
    op.run_on_npu = True
    w = op.weights
    w.values = np.arange(int(np.prod(w.shape)), dtype=np.int64).reshape(w.shape).astype(np.int8)
    twin = w.clone("_twin", set_unique=False)  # the second consumer's clone of the same constant: same value_id
    old_id, old_shape = w.value_id, list(w.shape)
    saved = go.DebugDatabase
    go.DebugDatabase = type("DD", (), {"add_optimised": staticmethod(lambda *a: None)})
    try:
        go.fixup_strided_conv(op, arch, None)
    finally:
        go.DebugDatabase = saved
    changed = list(op.weights.shape) != old_shape
    if not changed:
        return None
    return [("rewritten weights no longer share the value_id of the constant's other clones", op.weights.value_id != old_id and twin.value_id == old_id)]


def bias(V):
    import ethosu.vela.weight_compressor as wc

    b = V.extra("np", "bias", "int64")
    scale = V.extra("big", "scale", 0, (1 << 32) - 1)
    shift = V.extra("big", "shift", 0, 63)
    if V.symbolic:
        V.assume(z3.And(b.bv >= -(1 << 39), b.bv < (1 << 39)))
    elif not -(1 << 39) <= int(b) < (1 << 39):
        raise core.PathAbort("out of range")

    class _BA:
        def __init__(self, n):
            self.d = [0] * n

        def __setitem__(self, i, v):
            if isinstance(i, slice):
                v = list(v)
                if len(v) != len(self.d[i]):
                    raise core.Unmodelled("bytearray slice assignment that changes the length")
            self.d[i] = v

    def _isinstance(o, t):
        if isinstance(o, (SInt, npint.SNp, npint.SBig)):
            return True
        return isinstance(o, t)

    with core.shims((wc, {"bytearray": _BA, "isinstance": _isinstance, "int": npint.sint_shim})):
        data = wc.encode_bias(b, scale, shift)
    bytes_ = data.d if hasattr(data, "d") else list(data)
    cl = [("record is 10 bytes", len(bytes_) == 10)]
    W = npint.W
    total = z3.BitVecVal(0, W)
    for i, by in enumerate(bytes_):
        w = npint.wide(by)
        cl.append(("byte %d in range" % i, z3.And(w >= 0, w <= 255)))
        total = total + (w << (8 * i))
    bias40 = npint.wide(b) & z3.BitVecVal((1 << 40) - 1, W)
    cl.append(("80-bit record == [0:2 | shift:6 | scale:32 | bias:40] little-endian",
               total == bias40 + (npint.wide(scale) << 40) + (npint.wide(shift) << 72)))
    return cl


def bias_rejects(V, which):
    """out-of-range arguments raise instead of being packed"""
    import ethosu.vela.weight_compressor as wc

    args = {"bias_hi": (np.int64(1 << 39), 1, 1), "bias_lo": (np.int64(-(1 << 39) - 1), 1, 1), "scale": (np.int64(0), 1 << 32, 0),
            "shift": (np.int64(0), 1, 64), "neg_scale": (np.int64(0), -1, 0)}[which]
    try:
        wc.encode_bias(*args)
    except AssertionError:
        return [("out-of-range argument rejected", True)]
    return [("out-of-range argument rejected", False)]


def codec_args(V, accel, dx, dy, bits, partk, depthwise):
    """the Python wrapper around the C codec hands it the hardware parameters of the accelerator and the sub-kernel decomposition of
    the right axis: the maximum 8x8 sub-kernel shrinks with the dilation of ITS OWN direction (height with y, width with x)"""
    import numpy as np
    import ethosu.vela.weight_compressor as wc
    from ethosu.vela.architecture_features import Accelerator
    from ethosu.vela.api import NpuBlockTraversal
    from harness.c15 import HW

    cap = {}
    saved = wc.mlw_codec
    wc.mlw_codec = _Obj(reorder_encode=lambda *a: cap.setdefault("a", a) and (bytearray(16), 0) or (bytearray(16), 0))
    try:
        vol = np.zeros((8, 3, 5, 4), dtype=np.int16)
        wc.encode_weights(Accelerator[accel], vol, (dx, dy), bits, 8, bool(depthwise),
                          NpuBlockTraversal.PART_KERNEL_FIRST if partk else NpuBlockTraversal.DEPTH_FIRST)
    finally:
        wc.mlw_codec = saved
    a = cap.get("a")
    if a is None:
        return [("codec reached", False)]
    (uw, uh, ud), (iuw, iuh, iud), _, _ = HW[accel]
    return [("IFM / OFM micro-block depths of the accelerator", (a[0], a[1]) == (iud, ud)), ("weights volume and OFM block depth passed through", a[2] is vol and a[3] == 8),
            ("depthwise / part-kernel flags and bit depth", (a[4], a[5], a[6]) == (bool(depthwise), bool(partk), bits)),
            ("sub-kernel height shrinks with the y dilation, width with the x dilation", (a[7], a[8]) == (8 // dy, 8 // dx))]


def weight_ranges(V, accel, buffered, standalone):
    """create_weights(): the WEIGHT/SCALE ranges handed to the register generator for one depth slice, in the four tensor configurations
    (weights read straight from the encoded tensor or from an SRAM buffer; scales inside the weight tensor or in a stand-alone scale tensor,
    which is what the weight cache produces when two operators share weights but not biases).  Encoded ranges are symbolic."""
    import ethosu.vela.high_level_command_to_npu_op as h2n
    import ethosu.vela.weight_compressor as wc
    from ethosu.vela.high_level_command_stream import Box
    from ethosu.vela.tensor import MemType
    from harness.c04 import arch_for

    arch = arch_for(accel)
    d0 = 16

    def rng(tag):
        r = wc.WeightRange()
        r.offset = V.int("offset_" + tag, 0, 1 << 30)
        r.scale_bytes = V.int("scale_bytes_" + tag, 10, 1 << 12)
        r.weight_offset = V.int("weight_offset_" + tag, 0, 1 << 12)
        r.weight_bytes = V.int("weight_bytes_" + tag, 1, 1 << 20)
        # layout of a core's sub-stream as the encoder lays it out (lemma `encode`): scale records, padding to 16, weight stream (16-byte multiple)
        V.assume(z3.And(L(r.offset) % 16 == 0, L(r.weight_offset) % 16 == 0, L(r.weight_offset) >= L(r.scale_bytes), L(r.weight_offset) < L(r.scale_bytes) + 16,
                        L(r.weight_bytes) % 16 == 0))
        return r

    src_ranges = {wc.WeightKey(c, d0): rng("w%d" % c) for c in range(arch.ncores)}
    src = _Obj(address=V.int("src_base", 0, 1 << 30), encoded_ranges=src_ranges, mem_type=MemType.Permanent_NPU, src_tensor=None, name="w")
    wt = src
    if buffered:
        wt = _Obj(address=V.int("buf_base", 0, 1 << 30), mem_type=V.choice("buf_mem", [MemType.Scratch_fast, MemType.Scratch]), src_tensor=src, name="buf",
                  encoded_ranges={})
    st = None
    if standalone:
        st = _Obj(address=V.int("scale_base", 0, 1 << 30), mem_type=V.choice("scale_mem", [MemType.Permanent_NPU, MemType.Scratch]), src_tensor=None, name="s",
                  encoded_ranges={wc.WeightKey(c, d0): rng("s%d" % c) for c in range(arch.ncores)})
    box = Box([0, 0, 0, d0], [1, 1, 1, d0 + 16])
    with core.shims((h2n, {"int": core.IntShim})):
        ws, bs = h2n.create_weights(wt, box, st, arch)
    cl = [("one weight and one scale range per core", len(ws) == arch.ncores and len(bs) == arch.ncores)]
    w_region = h2n.get_region(wt.mem_type, arch)  # region mapping itself: C02 `regions`
    up16 = lambda x: ((L(x) + 15) / 16) * 16  # noqa
    core_off = L(0)
    for c, (w, b) in enumerate(zip(ws, bs)):
        r = src_ranges[wc.WeightKey(c, d0)]
        base = L(wt.address) + (core_off if buffered else L(r.offset))
        cl.append(("core %d: weights are read from the tensor that holds them (region, address of the core's sub-stream + weight offset, 16-byte length)" % c,
                   z3.And(L(w.region) == w_region, L(w.address) == base + L(r.weight_offset), L(w.length) == up16(r.weight_bytes))))
        if standalone:
            sr = st.encoded_ranges[wc.WeightKey(c, d0)]
            cl.append(("core %d: stand-alone scales are read from the scale tensor's own region and range" % c,
                       z3.And(L(b.region) == h2n.get_region(st.mem_type, arch), L(b.address) == L(st.address) + L(sr.offset), L(b.length) == up16(sr.scale_bytes))))
        else:
            cl.append(("core %d: combined scales are read from the start of the core's sub-stream" % c,
                       z3.And(L(b.region) == w_region, L(b.address) == base, L(b.length) == up16(r.scale_bytes))))
        core_off = core_off + L(r.weight_offset) + L(r.weight_bytes)  # in the buffer the cores' sub-streams follow each other (create_dma_op copies them so)
    return cl


class _WT:
    """stand-in for the NpuWeightTensor returned by the (stubbed) encoder: symbolic slice sizes, the bookkeeping the encoder lemma establishes"""

    def __init__(self, name, slices, sizes):
        import ethosu.vela.weight_compressor as wc

        self.name = name
        self.slices = list(slices)
        self.sizes = sizes
        self.encoded_ranges = {wc.WeightKey(0, d): i for i, d in enumerate(slices[:-1])}
        tot = 0
        for z in sizes:
            tot = tot + z
        self.buffer = _Stream(tot) if any(isinstance(z, SInt) for z in sizes) else bytearray(int(tot))
        even = [z for i, z in enumerate(sizes) if i % 2 == 0]
        odd = [z for i, z in enumerate(sizes) if i % 2 == 1]
        self.double_buffer_sizes = [core.smax(even) if len(even) > 1 else even[0], (core.smax(odd) if len(odd) > 1 else odd[0]) if odd else 0]

    def max_range_bytes(self):
        return core.smax(self.double_buffer_sizes)

    def double_buffer_size(self):
        return self.double_buffer_sizes[0] + self.double_buffer_sizes[1]


def buffering(V, limit, standalone_scales, cascade):
    """Scheduler.propose_weight_buffering with the encoder stubbed (each call returns a tensor with SYMBOLIC per-slice byte counts and the
    double_buffer_sizes the encoder lemma guarantees): whatever the method decides - double buffer, single buffer, or no buffering - (1) every
    depth slice fits the SRAM buffer the command generator will DMA it into (slice i goes to buffer i mod #buffers), (2) the weight tensor
    and the scale tensor recorded for the operator describe exactly the recorded depth slices."""
    import ethosu.vela.npu_performance  # noqa
    import ethosu.vela.scheduler as sch
    from ethosu.vela.operation import Op
    from ethosu.vela.tensor import MemArea, TensorSubPurpose
    from harness.c04 import arch_for

    arch = arch_for("Ethos_U55_128")
    depth = 64
    calls = []

    def fake_encode(arch_, op_, wt_, st_, kernel_, bc_, slices):
        k = len(calls)
        n = len(slices) - 1
        if k == 0:
            sizes = [4096]
        else:
            sizes = [V.int("bytes_call%d_slice%d" % (k, i), 16, 1 << 16) for i in range(n)]
            for z in sizes:
                V.assume(L(z) % 16 == 0)
        w = _WT("w%d" % k, slices, sizes)
        sc = _WT("s%d" % k, slices, [16] * n) if standalone_scales else None
        calls.append((list(slices), w, sc))
        return w, sc

    bufs = []

    def buffer_tensor(src, purpose, size, name):
        t = _Obj(src_tensor=src, sub_purpose=purpose, size=size, name=name, pre_buffer=False)
        bufs.append(t)
        return t

    sched_op = _Obj(parent_op=None, kernel=None, op_type=Op.Conv2DBias, name="op")
    cost = _Obj(block_config=_Obj(ofm_block=_Obj(depth=16)), ofm_depth_slices=None, npu_weights_tensor=None, npu_scales_tensor=None, buffered_weight_tensors=[],
                slack_buffering_cycles=0, slack_buffering_memory=1 << 20, full_weight_transfer_cycles=0)
    prev_cost = _Obj(slack_buffering_cycles=250, slack_buffering_memory=1 << 16)
    prev_op = _Obj(name="prev")
    ref_cost = _Obj(stripe=_Obj(depth=depth), cascade=cascade, time_index=0)
    me = _Obj(arch=_Obj(fast_storage_mem_area=MemArea.Sram), weights_needs_dma=lambda t: True, buffer_tensor=buffer_tensor,
              estimate_op_performance=lambda op, bc, d: _Obj(op_cycles=10 * d))
    saved = (sch.weight_compressor.encode_weight_and_scale_tensor, sch.npu_performance.measure_mem2mem_cycles)
    sch.weight_compressor.encode_weight_and_scale_tensor = fake_encode
    sch.npu_performance.measure_mem2mem_cycles = lambda *a: 1000
    try:
        with core.shims((sch, {"len": _slen, "min": core.smin, "max": core.smax})):
            sch.Scheduler.propose_weight_buffering(me, _Obj(name="w", mem_area=MemArea.Dram), _Obj(name="b"), sched_op, prev_op,
                                                   _Obj(cost_map={sched_op: cost, prev_op: prev_cost}), _Obj(cost_map={sched_op: ref_cost}, memory_snapshot=[0]),
                                                   limit)
    finally:
        sch.weight_compressor.encode_weight_and_scale_tensor, sch.npu_performance.measure_mem2mem_cycles = saved
    w = cost.npu_weights_tensor
    slices = cost.ofm_depth_slices
    cl = [("a weight tensor and depth slices are recorded", w is not None and slices is not None and slices[0] == 0 and slices[-1] == depth)]
    if w is None or slices is None:
        return cl
    cl.append(("the recorded weight tensor was encoded for the recorded depth slices", w.slices == list(slices)))
    if standalone_scales:
        sc = cost.npu_scales_tensor
        cl.append(("the recorded stand-alone scale tensor was encoded for the recorded depth slices (one scale range per slice the command generator looks up)",
                   sc is not None and sc.slices == list(slices)))
    nb = len(cost.buffered_weight_tensors)
    cl.append(("at most two SRAM weight buffers", nb <= 2 and cost.buffered_weight_tensors == bufs[-nb:] if nb else True))
    if nb:
        for i, z in enumerate(w.sizes):
            b = cost.buffered_weight_tensors[i % nb]
            cl.append(("depth slice %d (of %d) fits the SRAM buffer it is DMA-ed into (buffer %d of %d)" % (i, len(w.sizes), i % nb, nb), L(z) <= L(b.size)))
            cl.append(("buffer %d belongs to the recorded weight tensor" % (i % nb), b.src_tensor is w))
        tot = 0
        for b in cost.buffered_weight_tensors:
            tot = tot + b.size
        if cascade == 0:
            cl.append(("the SRAM buffers respect the buffering limit", L(tot) <= limit))
    return cl


def scale_values(V, **params):
    """the (multiplier, shift) of each 10-byte scale record is the quantisation - full 31-bit form, or the reduced int16 form for int16 IFM with
    int64 bias - of the reference per-channel scale (harness/c09.py prep_scales: real _prepare_scale_and_bias on symbolic float32 scales)"""
    from harness import c09

    return c09.prep_scales(V, **params)


def scale_quantisation(V, **params):
    """... and that quantisation is the TFLite reference multiplier for every positive normal scale (harness/c09.py qs)"""
    from harness import c09

    return c09.qs(V, **params)


def reduced_scale_quantisation(V, **params):
    """the 16-bit multiplier of an int16 operator with 64-bit bias is the reference reduction of the Q31 multiplier (harness/c09.py rqs)"""
    from harness import c09

    return c09.rqs(V, **params)


def idle_core(V, **params):
    """each channel exactly once: a core without a weight/scale stream of its own is programmed with length 0, not with another core's range
    (harness/c06.py pair, weights/biases groups on the two-core accelerator; also registered under C02)"""
    from harness import c06

    return c06.pair(V, **params)


FUNCS = {"reduced_scale_quantisation": reduced_scale_quantisation, "idle_core": idle_core, "scale_values": scale_values, "scale_quantisation": scale_quantisation, "buffering": buffering, "weight_ranges": weight_ranges, "codec_args": codec_args, "encode": encode, "cache": cache, "cache_key": cache_key, "rewrite_value_id": rewrite_value_id, "flash_contents": flash_contents, "scale_cache_key": scale_cache_key, "bias": bias, "bias_rejects": bias_rejects}


def instances(tier, seed):
    out = []
    for diff in ("none", "bias_values", "ifm_scale", "ofm_scale"):
        out.append(dict(key="scale_cache_key/%s" % diff, fn="scale_cache_key", params=dict(diff=diff)))
    for d, kw in ((3, 3), (1, 3), (4, 2), (2, 5)):
        out.append(dict(key="rewrite_value_id/d%d_k%d" % (d, kw), fn="rewrite_value_id", params=dict(ifm_depth=d, kw=kw)))
    for nops in (2, 3, 4):
        out.append(dict(key="flash_contents/%d" % nops, fn="flash_contents", params=dict(nops=nops)))
    for gname in ("weights", "biases"):
        out.append(dict(key="idle_core/%s" % gname, fn="idle_core", params=dict(accel="Ethos_U65_512", kind="conv", group=gname, light=True), weight=100))
    for accel in ("Ethos_U55_128", "Ethos_U65_512"):
        for sl in SLICINGS:
            if accel.endswith("512") and any(d % 2 for d in sl[1:-1]):
                continue  # intermediate slice boundaries are multiples of the core count (ASSUMPTIONS)
            for bd in ((16,) if tier == "quick" else (8, 16, 32)):
                out.append(dict(key="encode/%s/%s/bd%d" % (accel, "-".join(map(str, sl)), bd), fn="encode", params=dict(accel=accel, slicing=sl, block_depth=bd), weight=50))
        for first, second in (([0, 16, 48, 64], [0, 16, 32, 48, 64]), ([0, 16, 32], [0, 16, 24, 32]), ([0, 32, 64], [0, 32, 48, 64]), ([0, 16, 32], [0, 16, 32])):
            out.append(dict(key="cache/%s/%s_then_%s" % (accel, "-".join(map(str, first)), "-".join(map(str, second))), fn="cache",
                            params=dict(accel=accel, first=first, second=second)))
        for diff in ("none", "values", "dilation", "block_depth", "offsets", "block_type"):
            out.append(dict(key="cache_key/%s/%s" % (accel, diff), fn="cache_key", params=dict(accel=accel, diff=diff)))
    for accel in ("Ethos_U55_32", "Ethos_U55_64", "Ethos_U55_128", "Ethos_U55_256", "Ethos_U65_256", "Ethos_U65_512"):
        for dx, dy in ((1, 1), (2, 1), (1, 2), (2, 2)):
            for bits, partk, dw in ((8, 0, 0), (16, 1, 0), (8, 0, 1)):
                out.append(dict(key="codec_args/%s/d%dx%d/b%d_p%d_dw%d" % (accel, dx, dy, bits, partk, dw), fn="codec_args",
                                params=dict(accel=accel, dx=dx, dy=dy, bits=bits, partk=partk, depthwise=dw)))
    for accel in ("Ethos_U55_128", "Ethos_U65_512"):
        for buffered in (0, 1):
            for standalone in (0, 1):
                out.append(dict(key="weight_ranges/%s/buffered%d_standalone%d" % (accel, buffered, standalone), fn="weight_ranges",
                                params=dict(accel=accel, buffered=buffered, standalone=standalone)))
    for limit in (256, 1024, 1296, 2048, 4096, 1 << 16):
        for standalone in (0, 1):
            for cascade in (0, 1):
                out.append(dict(key="buffering/limit%d/standalone%d/cascade%d" % (limit, standalone, cascade), fn="buffering",
                                params=dict(limit=limit, standalone_scales=standalone, cascade=cascade)))
    from harness import c09

    for inst in c09.instances(tier, seed):
        if inst["fn"] == "prep_scales":
            out.append(dict(key="scale_values/" + inst["key"], fn="scale_values", params=inst["params"]))
        if inst["fn"] == "qs":
            out.append(dict(key="scale_quantisation/" + inst["key"], fn="scale_quantisation", params=inst["params"], weight=100))
        if inst["fn"] == "rqs":
            out.append(dict(key="reduced_scale_quantisation/" + inst["key"], fn="reduced_scale_quantisation", params=inst["params"]))
    out.append(dict(key="bias/pack", fn="bias", params={}))
    for w in ("bias_hi", "bias_lo", "scale", "shift", "neg_scale"):
        out.append(dict(key="bias_rejects/%s" % w, fn="bias_rejects", params=dict(which=w)))
    return out
