import sys, traceback
import numpy as np
from ethosu.vela.data_type import DataType
from ethosu.vela.errors import VelaError
from ethosu.vela.graph_optimiser import optimise_graph
from ethosu.vela.nn_graph import Graph, NetworkType, Subgraph
from ethosu.vela.operation import Op, Operation
from ethosu.vela.tensor import QuantizationParameters, Tensor, create_const_tensor
from ethosu.vela.test import testutil
from ethosu.vela.tflite_model_semantic import tflite_semantic_checker
from ethosu.vela.tflite_supported_operators import TFLiteSupportedOperators

def quant(s):
    qp = QuantizationParameters(); qp.scale_f32 = np.float32(s); qp.zero_point = 0; qp.quant_min=-128; qp.quant_max=127
    return qp
D=int(sys.argv[1]) if len(sys.argv)>1 else 8
x = Tensor([1,4,4,D], DataType.int8, "x"); x.quantization=quant(0.5)
Operation(Op.Placeholder,"x").set_output_tensor(x)
size = create_const_tensor("size",[2],DataType.int32,[7,7])
y = Tensor([1,7,7,D], DataType.int8, "y"); y.quantization=quant(0.5)
op = Operation(Op.ResizeNearestNeighbor,"resize"); op.op_index=0; op.add_input_tensor(x); op.add_input_tensor(size); op.set_output_tensor(y)
op.attrs={"align_corners":True,"half_pixel_centers":False}
sg = Subgraph("main"); sg.original_inputs=[x]; sg.output_tensors=[y]
nng = Graph("demo"); nng.subgraphs.append(sg); nng.refresh_after_modification()
arch = testutil.create_arch()
try:
    nng = tflite_semantic_checker(nng)
    nng = optimise_graph(nng, arch, NetworkType.TFLite)
    ops=[o for o in nng.get_root_subgraph().get_all_ops()]
    print("ok", [(o.type.name, o.run_on_npu) for o in ops]); sys.exit(0)
except VelaError as e:
    print("vela error", e); sys.exit(0)
except Exception:
    traceback.print_exc(); sys.exit(1)
