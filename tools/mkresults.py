#!/usr/bin/env python3
"""tools/mkresults.py <sweep log> : rewrites seeded/RESULTS.md from the output of tools/sweep_seeds.sh"""
import json
import os
import re
import sys

ROOT = os.path.dirname(os.path.dirname(os.path.abspath(__file__)))
rows = []
for ln in open(sys.argv[1]):
    m = re.match(r"^(C\d+_\d+) (C\d+) (exit=\d+)", ln)
    if m:
        rows.append(m.groups())
rows.sort(key=lambda r: (r[0][:3], int(r[0].split("_")[1])))
out = ["# quick-tier result per seeded change (tools/sweep_seeds.sh)", "",
       "exit=1 means the check printed a replayed VIOLATION line with the change applied (in a scratch worktree of /repo, `VERIF_REPO`); exit=0 means "
       "the change was not detected (C03_6, see DESIGN §8).", "", "| seed | round | check run | result | detected by |", "|------|-------|-----------|--------|-------------|"]
for s, chk, res in rows:
    try:
        m = json.load(open(os.path.join(ROOT, "seeded", s, "meta.json")))
    except Exception:  # noqa
        m = {}
    out.append("| %s | %s | %s | %s | %s |" % (s, m.get("round", "1-4"), chk, res, str(m.get("detected_by", "")).replace("|", "/")[:160]))
n1 = sum(1 for r in rows if r[2] == "exit=1")
out += ["", "%d of %d seeded changes detected." % (n1, len(rows))]
open(os.path.join(ROOT, "seeded", "RESULTS.md"), "w").write("\n".join(out) + "\n")
print("%d rows, %d detected" % (len(rows), n1))
