"""C18 - system configuration and memory mode resolve as documented.

read_config : ArchitectureFeatures._read_config (recursion included) on symbolic section graphs of up to 4 sections:
              which sections exist, each section's inherit target, which define the key - value = nearest definition on the
              child->parent chain, else the caller's default; self-inheritance / missing parent => ConfigOptionError.
vela_config : the real _get_vela_config on a symbolic configuration (ports, areas, sizes, CLI value): defaults, CLI override,
              Sram->OnChipFlash remap, validation errors.
cli_binding : the value _get_vela_config receives when the user gives no --arena-cache-size, extracted from vela.main()'s AST.
"""
import ast
import inspect

import z3

from symx import core
from symx.core import SInt, SBool, L, B

EXPLANATION = "C18: _read_config on symbolic inheritance graphs, _get_vela_config defaults/override/validation, CLI default binding."
SHIMS = ["architecture_features.ConfigParser -> stand-in with the has_section/has_option/get/read surface, answers are symbolic",
         "architecture_features.int/float -> identity on proxies"]
ASSUMPTIONS = ["inheritance graph acyclic apart from the self-loop the property names (inherit targets point to a later section, itself, or a "
               "missing section)", "documented rules from OPTIONS.md: child overrides parent transitively; unspecified -> default; CLI arena "
               "cache size overrides the file only if specified; const area in {Dram, OnChipFlash, OffChipFlash}, arena in {Sram, Dram}, cache "
               "== Sram, 0 <= size <= max address"]
OUTSIDE = ["the file system itself (os.access is answered by a symbolic Boolean)", "ConfigParser's own INI parsing", "inherit cycles of length >= 2"]
BOUNDS = {"read_config": "<= 4 sections, all existence / inherit / definition patterns", "vela_config": "child+parent memory-mode sections, one system-config section"}
K = 4


def ENCODED():
    import ethosu.vela.architecture_features as af
    import ethosu.vela.vela as vela

    A = af.ArchitectureFeatures
    return [A._read_config, A._get_vela_config, A._mem_port_mapping, A._set_default_sys_config, A._set_default_mem_mode, vela.main]


class _IntShim(int):
    """int() replacement that is still accepted by numpy as a dtype (np.ones(n, int) in the code under test)"""

    def __new__(cls, x=0, *a):
        return core.sint(x, *a)


class _Cfg:
    """ConfigParser stand-in: sections -> {option: value}; membership answers may be symbolic Booleans"""

    def __init__(self, sections):
        self.sections = sections  # name -> (exists: bool-like, {option: (present: bool-like, value)})

    def read(self, files):
        return files

    def has_section(self, s):
        if s not in self.sections:
            return False
        return self.sections[s][0]

    def has_option(self, s, o):
        if s not in self.sections or o not in self.sections[s][1]:
            return False
        return self.sections[s][1][o][0]

    def get(self, s, o):
        return self.sections[s][1][o][1]


def read_config(V, with_found):
    import ethosu.vela.architecture_features as af

    names = ["Memory_Mode.s%d" % i for i in range(K)]
    exists = [True] + [V.bool("exists%d" % i) for i in range(1, K)]
    has_inh = [V.bool("has_inherit%d" % i) for i in range(K)]
    # inherit target: a later section (acyclic), the section itself (self-loop), or a section that is not in the file
    targets = []
    for i in range(K):
        opts = [("later", j) for j in range(i + 1, K)] + [("self", i), ("missing", None)]
        targets.append(V.choice("target%d" % i, opts))
    has_key = [V.bool("has_key%d" % i) for i in range(K)]
    sections = {}
    for i in range(K):
        kind, j = targets[i]
        tname = names[j] if j is not None else "Memory_Mode.not_in_file"
        sections[names[i]] = (exists[i], {"inherit": (has_inh[i], tname), "the_key": (has_key[i], "value_of_s%d" % i)})
    arch = af.ArchitectureFeatures.__new__(af.ArchitectureFeatures)
    arch.vela_config = _Cfg(sections)
    found = [] if with_found else None
    try:
        got = arch._read_config(names[0], "the_key", "the_default", found)
        raised = None
    except af.ConfigOptionError as e:
        got, raised = None, e
    # ---- oracle: walk the chain (decisions are concrete on this path: every membership answer forked)
    def conc(b):
        return bool(b) if not isinstance(b, SBool) else bool(b)

    i, chain, err = 0, [], None
    while True:
        if not conc(exists[i]):
            err = "missing section"
            break
        chain.append(i)
        if not conc(has_inh[i]):
            break
        kind, j = targets[i]
        if kind == "self":
            err = "self inheritance"
            break
        if kind == "missing":
            err = "missing parent"
            break
        i = j
    if err is not None:
        return [("unknown section / self-inheritance is rejected with ConfigOptionError (%s)" % err, raised is not None)]
    want = "the_default"
    any_def = False
    for i in reversed(chain):  # parent first, child last: child overrides
        if conc(has_key[i]):
            want = "value_of_s%d" % i
            any_def = True
    cl = [("no error for a legal chain", raised is None), ("value = nearest definition on the child->parent chain, else the default", got == want)]
    if with_found:
        cl.append(("found flag tells whether the file defined the option", bool(found) and found[-1] == any_def))
    return cl


def _arch(accel, sys_name, mem_name):
    import ethosu.vela.architecture_features as af
    from harness.c04 import arch_for

    base = arch_for(accel)
    arch = af.ArchitectureFeatures.__new__(af.ArchitectureFeatures)
    arch.system_config = sys_name
    arch.memory_mode = mem_name
    arch.max_address_offset = base.max_address_offset
    arch.is_ethos_u65_system = base.is_ethos_u65_system
    arch.accelerator_config = base.accelerator_config
    return arch


def vela_config(V, accel, cli_given, inherit, focus):
    """focus selects which part of the configuration is symbolic (each option is resolved independently by _read_config, whose
    generic behaviour is the subject of `read_config`): 'ports' = system ports x memory-mode areas, 'inherit' = areas of child and
    parent, 'size' = arena cache size in child / parent / CLI"""
    import ethosu.vela.architecture_features as af
    from ethosu.vela.tensor import MemArea

    MP = af.MemPort
    areas = ["Sram", "Dram", "OnChipFlash", "OffChipFlash"]
    ports = ["Axi0", "Axi1"]
    arch = _arch(accel, "Sys", "Mode")
    maxaddr = arch.max_address_offset

    def opt(name, options, parent=False, fixed=None):
        if fixed is not None:
            return fixed
        p = V.bool(("p_" if parent else "") + "has_" + name)
        v = V.choice(("p_" if parent else "") + name, options)
        return (p, v)

    fx_sys = focus != "ports"
    sysopts = {"axi0_port": opt("axi0_port", areas, fixed=(True, "Sram") if fx_sys else None),
               "axi1_port": opt("axi1_port", areas, fixed=(True, "Dram") if fx_sys else None)}
    legal = {"const_mem_area": (True, "Axi1"), "arena_mem_area": (True, "Axi0"), "cache_mem_area": (True, "Axi0")}
    child = {k: opt(k, ports, fixed=legal[k] if focus == "size" else None) for k in ("const_mem_area", "arena_mem_area", "cache_mem_area")}
    if focus == "size":
        size_c = V.int("arena_cache_size", -(2**20), 2 * maxaddr)
        child["arena_cache_size"] = (V.bool("has_arena_cache_size"), size_c)
    else:
        child["arena_cache_size"] = (False, 0)
    sections = {"System_Config.Sys": (True, sysopts), "Memory_Mode.Mode": (True, child)}
    parent = None
    if inherit:
        parent = {k: opt(k, ports, True, fixed=(False, "Axi0") if focus == "size" else None) for k in ("const_mem_area", "arena_mem_area", "cache_mem_area")}
        if focus == "size":
            size_p = V.int("p_arena_cache_size", -(2**20), 2 * maxaddr)
            parent["arena_cache_size"] = (V.bool("p_has_arena_cache_size"), size_p)
        else:
            parent["arena_cache_size"] = (False, 0)
        child["inherit"] = (True, "Memory_Mode.Parent")
        sections["Memory_Mode.Parent"] = (True, parent)
    cli = V.int("cli_arena_cache_size", -(2**20), 2 * maxaddr) if cli_given else None
    saved = af.ConfigParser
    af.ConfigParser = lambda: _Cfg(sections)
    raised = None
    try:
        with core.shims((af, {"int": core.IntShim, "float": lambda x: x, "print": lambda *a, **k: None})):
            arch._get_vela_config(["file.ini"], False, cli)
    except (af.ConfigOptionError, af.CliOptionError) as e:
        raised = e
    except (KeyError, ValueError, TypeError, AttributeError, IndexError) as e:
        # neither a result nor a Vela configuration error: the documented default / rejection did not happen
        return [("configuration resolved or rejected with a configuration error (not an internal %s: %s)" % (type(e).__name__, str(e)[:80]), False)]
    finally:
        af.ConfigParser = saved
    # ---- oracle (OPTIONS.md)
    def resolve(key, default):
        val = default
        if parent is not None and bool(parent[key][0]):
            val = parent[key][1]
        if bool(child[key][0]):
            val = child[key][1]
        return val

    axi = {"Axi0": sysopts["axi0_port"][1] if bool(sysopts["axi0_port"][0]) else "Sram",
           "Axi1": sysopts["axi1_port"][1] if bool(sysopts["axi1_port"][0]) else "Sram"}
    c_port, a_port, k_port = resolve("const_mem_area", "Axi0"), resolve("arena_mem_area", "Axi0"), resolve("cache_mem_area", "Axi0")
    file_size = resolve("arena_cache_size", None)
    size = L(cli) if cli is not None else (L(file_size) if file_size is not None else L(maxaddr))
    # documented single-port remap: const area mapped to Sram and all three areas on the same port -> const moves to the other port as OnChipFlash
    if axi[c_port] == "Sram" and c_port == a_port == k_port:
        other = "Axi1" if c_port == "Axi0" else "Axi0"
        axi[other] = "OnChipFlash"
        c_port = other
    illegal = (axi[c_port] not in ("Dram", "OnChipFlash", "OffChipFlash")) or (axi[a_port] not in ("Sram", "Dram")) or axi[k_port] != "Sram"
    bad_size = z3.Or(size < 0, size > maxaddr)
    if illegal:
        return [("illegal memory-area mapping is rejected with an error", raised is not None)]
    cl = [("out-of-range arena cache size is rejected, in-range accepted", z3.BoolVal(raised is not None) == bad_size)]
    if raised is None:
        cl += [("arena_cache_size = CLI value if given, else file value (child over parent), else the maximum address", L(arch.arena_cache_size) == size),
               ("permanent storage area", arch.permanent_storage_mem_area == MemArea[axi[c_port]]),
               ("feature map storage area", arch.feature_map_storage_mem_area == MemArea[axi[a_port]]),
               ("fast storage area", arch.fast_storage_mem_area == MemArea[axi[k_port]])]
    return cl


def sections_missing(V, which, accel):
    """a named (non-default) system configuration / memory mode that is not in the file is rejected; internal-default is accepted"""
    import ethosu.vela.architecture_features as af

    arch = _arch(accel, "Sys" if which != "sys_default" else af.ArchitectureFeatures.DEFAULT_CONFIG,
                 "Mode" if which != "mem_default" else af.ArchitectureFeatures.DEFAULT_CONFIG)
    sections = {"System_Config.Sys": (which not in ("sys_missing",), {}), "Memory_Mode.Mode": (which not in ("mem_missing",), {"const_mem_area": (True, "Axi1")}),
                "System_Config.Sys2": (True, {})}
    if which == "mem_default":
        sections["System_Config.Sys"] = (True, {"axi0_port": (True, "Sram"), "axi1_port": (True, "Dram")})
    saved = af.ConfigParser
    af.ConfigParser = lambda: _Cfg(sections)
    raised = None
    try:
        with core.shims((af, {"print": lambda *a, **k: None})):
            arch._get_vela_config(["file.ini"], False, None)
    except (af.ConfigOptionError, af.CliOptionError) as e:
        raised = e
    except (KeyError, ValueError, TypeError, AttributeError, IndexError) as e:
        return [("configuration resolved or rejected with a configuration error (not an internal %s: %s)" % (type(e).__name__, str(e)[:80]), False)]
    finally:
        af.ConfigParser = saved
    if which in ("sys_missing", "mem_missing"):
        return [("unknown section is rejected with an error", raised is not None)]
    return [("internal-default selection needs no section in the file", raised is None or which == "sys_default")]


def cli_binding(V):
    """the default of --arena-cache-size and the expression passed as arena_cache_size= are taken from vela.main's AST: when the user
    gives no option the value handed to ArchitectureFeatures must be None ('overrides ... if specified', OPTIONS.md)"""
    import ethosu.vela.vela as vela

    tree = ast.parse(inspect.getsource(vela.main))  # only the command-line entry point
    default = "<not found>"
    passed = []
    for node in ast.walk(tree):
        if isinstance(node, ast.Call) and getattr(node.func, "attr", "") == "add_argument" and node.args and \
                isinstance(node.args[0], ast.Constant) and node.args[0].value == "--arena-cache-size":
            default = "None"
            for kw in node.keywords:
                if kw.arg == "default":
                    default = ast.unparse(kw.value)
        if isinstance(node, ast.Call):
            for kw in node.keywords:
                if kw.arg == "arena_cache_size" and "ArchitectureFeatures" in ast.unparse(node.func):
                    passed.append(ast.unparse(kw.value))
    ok_passed = bool(passed) and all(p == "args.arena_cache_size" for p in passed)
    fid = "C18-arena-cache-size-cli-default-shadows-config-file"
    return [("ArchitectureFeatures receives the parsed --arena-cache-size value unchanged", ok_passed),
            ("[%s] without --arena-cache-size the configuration file's value is honoured (CLI default is None)" % fid,
             V.except_finding(fid, True, default == "None"))]


def internal_default(V, variant):
    """`internal-default` maps to named sections of the bundled example file (OPTIONS.md: Ethos-U65 -> system configuration Ethos_U65_Client_Server and
    memory mode Dedicated_Sram; Ethos-U55 -> Ethos_U55_High_End_Embedded and Shared_Sram): an architecture object built with the internal
    defaults carries, option for option, the values of one built from those sections of Arm/vela.ini (both through the real constructor and
    the real ConfigParser).  variant: the generic class for U55 / U65, and the i.MX93 class the command line uses without --config."""
    import os
    import numpy as np
    import ethosu.vela.vela as vela
    import ethosu.vela.architecture_features as af
    from ethosu.vela.tensor import MemArea

    cls = vela.Imx93ArchitectureFeatures if variant == "imx93" else af.ArchitectureFeatures
    accel = "ethos-u55-128" if variant == "u55" else "ethos-u65-256"
    names = ("Ethos_U55_High_End_Embedded", "Shared_Sram") if variant == "u55" else ("Ethos_U65_Client_Server", "Dedicated_Sram")
    ini = os.path.join(os.path.dirname(os.path.dirname(os.path.abspath(vela.__file__))), "config_files", "Arm", "vela.ini")
    kw = dict(accelerator_config=accel, max_blockdep=af.ArchitectureFeatures.MAX_BLOCKDEP, verbose_config=False, arena_cache_size=None)
    with core.shims((af, {"print": lambda *a, **k: None})):
        d = cls(vela_config_files=None, system_config=af.ArchitectureFeatures.DEFAULT_CONFIG, memory_mode=af.ArchitectureFeatures.DEFAULT_CONFIG, **kw)
        n = af.ArchitectureFeatures(vela_config_files=[ini], system_config=names[0], memory_mode=names[1], **kw)
    fid = "C18-imx93-internal-default-system-config-is-high-end"
    cl = []
    for attr in ("core_clock", "axi0_port", "axi1_port", "const_mem_area", "arena_mem_area", "cache_mem_area", "arena_cache_size"):
        cl.append(("internal default %s == [%s / %s] of Arm/vela.ini" % (attr, names[0], names[1]), getattr(d, attr) == getattr(n, attr)))
    for area in MemArea.all():
        same_scale = bool(d.memory_clock_scales[area] == n.memory_clock_scales[area])
        if variant == "imx93" and area == MemArea.Dram:
            cl.append(("[%s] internal default clock scale of %s == the documented section's" % (fid, area.name), V.except_finding(fid, True, same_scale)))
        else:
            cl.append(("internal default clock scale of %s == the documented section's" % area.name, same_scale))
        cl.append(("internal default burst length of %s == the documented section's" % area.name, bool(d.memory_burst_length[area] == n.memory_burst_length[area])))
        cl.append(("internal default read/write latency of %s == the documented section's" % area.name, bool(np.array_equal(d.memory_latency[area], n.memory_latency[area]))))
    return cl


class _Stop(Exception):
    pass


def main_cli(V, config, sysc, memm):
    """the real vela.main() up to the construction of the architecture object (constructors replaced by recorders, file system access
    answered by a symbolic Boolean): a configuration named Dir/file.ini is looked up in the bundled configuration directory and that
    path is what the architecture object reads; an unreadable file is an error; a named system configuration / memory mode is never
    silently replaced by the internal defaults."""
    import os
    import ethosu.vela.vela as vela
    import ethosu.vela.architecture_features as af

    argv = ["net.tflite"]
    if config is not None:
        argv += ["--config", config]
    if sysc is not None:
        argv += ["--system-config", sysc]
    if memm is not None:
        argv += ["--memory-mode", memm]
    readable = V.bool("config_file_readable")
    calls = []

    def rec(name):
        class Recorder(af.ArchitectureFeatures):  # keeps class attributes such as DEFAULT_CONFIG
            def __init__(self, *a, **k):
                calls.append((name, k))
                raise _Stop()

        return Recorder

    class _OS:
        path = os.path
        R_OK = os.R_OK

        @staticmethod
        def access(path, mode):
            calls.append(("access", path))
            return readable

        def __getattr__(self, n):
            return getattr(os, n)

    saved = (vela.os, vela.Imx93ArchitectureFeatures, vela.architecture_features.ArchitectureFeatures)
    vela.os = _OS()
    vela.Imx93ArchitectureFeatures = rec("imx93")
    vela.architecture_features.ArchitectureFeatures = rec("generic")
    err = None
    internal = None
    # the compiler is started from an arbitrary directory: not the one the module was imported from ("bundled" must not depend on it)
    cwd0 = os.getcwd()
    # a freshly made directory nested deeper than the directory the module was imported from: a path kept RELATIVE to the import-time directory
    # then resolves to a different place (from a shallower directory surplus ".." components are absorbed at the root and hide the difference)
    import tempfile

    foreign_root = tempfile.mkdtemp(prefix="c18_cwd_")
    foreign = os.path.join(foreign_root, *(["d"] * (len(cwd0.split(os.path.sep)) + 3)))
    os.makedirs(foreign)
    os.chdir(foreign)
    try:
        with core.shims((vela, {"print": lambda *a, **k: None})):
            rc = vela.main(argv)
            if rc:
                err = "main() returned %r" % (rc,)  # VelaError caught inside main(): message printed, non-zero status
    except _Stop:
        pass
    except vela.InputFileError as e:
        err = e
    except SystemExit as e:
        err = e
    except (core.PathAbort, core.Infeasible, core.Inconclusive, core.EngineError):
        raise
    except Exception as e:  # noqa: BLE001 - anything else that escapes main() is an internal exception: the user sees a traceback, not a diagnosis
        internal = e
    finally:
        vela.os, vela.Imx93ArchitectureFeatures = saved[0], saved[1]
        vela.architecture_features.ArchitectureFeatures = saved[2]
        got_abs = [os.path.abspath(p_) for c in calls if c[0] in ("imx93", "generic") for p_ in (c[1].get("vela_config_files") or [])]
        run_dir = os.getcwd()
        os.chdir(cwd0)
        import shutil

        shutil.rmtree(foreign_root, ignore_errors=True)
    ctor = [c for c in calls if c[0] in ("imx93", "generic")]
    cfgn = os.path.normpath(config) if config is not None else None
    # OPTIONS.md: "Dir/file.ini" names a file in the bundled configuration directory; files elsewhere are given by (absolute) path
    bundled = config is not None and len(cfgn.split(os.path.sep)) == 2 and not cfgn.startswith((".", "~", os.path.sep))
    cl = []
    if internal is not None:
        return [("main() ends with a status or a diagnosis, not with an internal %s" % type(internal).__name__, False)]
    if config is not None and not bool(readable):
        return [("an unreadable / missing configuration file is rejected", err is not None and not ctor)]
    cl.append(("architecture object constructed without error", err is None and len(ctor) == 1))
    if not ctor:
        return cl
    name, kw = ctor[0]
    if config is None:
        cl.append(("no configuration file handed over", kw.get("vela_config_files") is None))
    else:
        # the bundled directory is the config_files directory next to the vela package (absolute, whatever the current directory)
        bundled_dir = os.path.join(os.path.dirname(os.path.dirname(os.path.abspath(vela.__file__))), "config_files")
        want = os.path.join(bundled_dir, cfgn) if bundled else os.path.normpath(os.path.join(run_dir, cfgn))
        cl.append(("the architecture object reads the resolved path (Dir/file.ini -> bundled configuration directory, from any working directory)",
                   got_abs == [want]))
    want_sys = sysc if sysc is not None else af.ArchitectureFeatures.DEFAULT_CONFIG
    want_mem = memm if memm is not None else af.ArchitectureFeatures.DEFAULT_CONFIG
    cl.append(("the selected system configuration is passed on, never replaced", kw.get("system_config") == want_sys))
    cl.append(("the selected memory mode is passed on, never replaced", kw.get("memory_mode") == want_mem))
    return cl


def exit_status(V):
    """`python -m ethosu.vela` reports main()'s status to the caller: the package's __main__ module is executed (runpy) with vela.main replaced by
    a stub returning a SYMBOLIC status; the process exit status (SystemExit code, 0 when the module just ends) must equal it - an error that
    main() turns into status 1 must not end as a successful process."""
    import runpy
    import sys
    import ethosu.vela.vela as vela

    r = V.int("main_status", 0, 255)
    saved = vela.main
    saved_mod = sys.modules.pop("ethosu.vela.__main__", None)
    vela.main = lambda *a, **k: r
    code = 0
    try:
        runpy.run_module("ethosu.vela.__main__", run_name="__main__", alter_sys=False)
    except SystemExit as e:
        code = 0 if e.code is None else e.code
    finally:
        vela.main = saved
        sys.modules.pop("ethosu.vela.__main__", None)
        if saved_mod is not None:
            sys.modules["ethosu.vela.__main__"] = saved_mod
    if not isinstance(code, (int, SInt)):
        return [("the exit status is main()'s status", False)]
    return [("the exit status of `python -m ethosu.vela` is main()'s status", L(code) == L(r))]


def config_listing(V):
    """--list-config-files offers exactly the files that --config looks up in the bundled configuration directory (names of the form Dir/file.ini,
    OPTIONS.md).  The real list_config_files() with the real glob on a scratch directory tree whose candidate files (depth 1, 2, 3; other
    extensions) exist or not according to free Booleans (every combination is explored)."""
    import contextlib
    import io
    import os
    import shutil
    import tempfile
    import ethosu.vela.vela as vela

    cands = ["stray.ini", "Arm/vela.ini", "Vendor/board.ini", "Vendor/notes.txt", "Vendor/Board/deep.ini"]
    exists = [bool(V.bool("exists_%s" % c.replace("/", "_").replace(".", "_"))) for c in cands]
    d = tempfile.mkdtemp(prefix="c18_cfg_")
    saved = vela.CONFIG_FILES_PATH
    buf = io.StringIO()
    try:
        for c, e in zip(cands, exists):
            if e:
                os.makedirs(os.path.dirname(os.path.join(d, c)), exist_ok=True)
                open(os.path.join(d, c), "w").close()
        vela.CONFIG_FILES_PATH = d
        with contextlib.redirect_stdout(buf):
            vela.list_config_files()
    finally:
        vela.CONFIG_FILES_PATH = saved
        shutil.rmtree(d, ignore_errors=True)
    listed = sorted(os.path.normpath(ln.strip()) for ln in buf.getvalue().splitlines()[1:] if ln.strip())
    want = sorted(os.path.normpath(c) for c, e in zip(cands, exists) if e and c.endswith(".ini") and len(c.split("/")) == 2)
    return [("the listing names exactly the bundled Dir/file.ini files (what --config resolves in the bundled directory)", listed == want)]


def regions(V, **params):
    """what the resolved arena_cache_size MEANS depends on the memory mode: a hard limit of its own region when the cache has a port of its own
    (dedicated SRAM, spilling), only the scheduler's target otherwise - the per-region limits the compiler enforces follow that rule
    (harness/c02.py regions: the real get_region / mem_type_size / get_mem_limits_for_regions)"""
    from harness import c02

    return c02.regions(V, **params)


FUNCS = {"regions": regions, "exit_status": exit_status, "config_listing": config_listing, "internal_default": internal_default, "main_cli": main_cli, "read_config": read_config, "vela_config": vela_config, "sections_missing": sections_missing, "cli_binding": cli_binding}


def instances(tier, seed):
    out0 = [dict(key="internal_default/%s" % v, fn="internal_default", params=dict(variant=v)) for v in ("u55", "u65", "imx93")]
    out = out0 + [dict(key="read_config/found", fn="read_config", params=dict(with_found=True), weight=100),
           dict(key="read_config/plain", fn="read_config", params=dict(with_found=False), weight=100)]
    for accel in ("Ethos_U55_128", "Ethos_U65_256"):
        out.append(dict(key="vela_config/%s/ports" % accel, fn="vela_config", params=dict(accel=accel, cli_given=False, inherit=False, focus="ports"), weight=500))
        out.append(dict(key="vela_config/%s/inherit" % accel, fn="vela_config", params=dict(accel=accel, cli_given=False, inherit=True, focus="inherit"), weight=500))
        for cli in (False, True):
            for inh in (False, True):
                out.append(dict(key="vela_config/%s/size/%s/%s" % (accel, "cli" if cli else "nocli", "inherit" if inh else "flat"), fn="vela_config",
                                params=dict(accel=accel, cli_given=cli, inherit=inh, focus="size"), weight=100))
        for which in ("sys_missing", "mem_missing", "sys_default", "mem_default"):
            out.append(dict(key="sections_missing/%s/%s" % (accel, which), fn="sections_missing", params=dict(which=which, accel=accel)))
    out.append(dict(key="cli_binding", fn="cli_binding", params={}))
    out.append(dict(key="exit_status", fn="exit_status", params={}))
    from harness import c02

    for inst in c02.instances(tier, seed):
        if inst["fn"] == "regions":
            out.append(dict(key=inst["key"], fn="regions", params=inst["params"]))
    out.append(dict(key="config_listing", fn="config_listing", params={}))
    for config in (None, "Arm/vela.ini", "/abs/dir/my.ini", "../other/dir/my.ini", "my.ini"):
        for sysc in (None, "Ethos_U65_High_End"):
            for memm in (None, "Dedicated_Sram"):
                out.append(dict(key="main_cli/%s/%s/%s" % (config, sysc, memm), fn="main_cli", params=dict(config=config, sysc=sysc, memm=memm)))
    return out
