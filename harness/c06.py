"""C06 - the register command stream encodes exactly the operations it was given.

pair : the public generate_command_stream() on a two-operation list [op1, op2].  Both operations are instances of one template;
       a *group* of their fields is symbolic and independent in op1 and op2, so every register of the group holds an arbitrary
       previous value when op2 is generated (the elision decision "unchanged?" is exercised against an arbitrary history value,
       including equal-payload/different-parameter cases).  The emitted words are decoded by a reference register file and, at op2's
       NPU_OP word, every register of the operation must hold op2's value - whether it was written or elided.  Also: alignment /
       length errors exactly when the hardware rule is broken, no field truncated, waits before the op word, exactly one STOP at the end.
"""
import z3

from symx import core
from symx.core import SInt, SBool, L, B

EXPLANATION = "C06: two-op streams with symbolic field groups through the real generator, decoded by a reference register file."
SHIMS = ["register_command_stream_generator.int -> identity on proxies", "register_command_stream_generator/util: min,max -> ite shims",
         "register_command_stream_generator.calc_blockdep -> 0 (BLOCKDEP is C04's subject)"]
ASSUMPTIONS = ["legal operations = field ranges documented in api.py (addresses < 2^40 on U65 / 2^32 on U55, region 0..7, zero points within the data "
               "type, pads 0..127 fitting the kernel, strides 1..3, lengths < 2^32)",
               "register semantics of the Ethos-U command format: cmd0 = 16-bit parameter; cmd1 = 32-bit payload with bits 32..39 of addresses "
               "(or a 6-bit shift for *_SCALE registers) in the parameter",
               "elision independence between registers of different groups is not examined (each group is run separately)"]
OUTSIDE = ["operation lists longer than 2 (covered by the arbitrary-previous-value argument per register, not by unrolling)",
           "derived SHRAM layout registers (C15) and BLOCKDEP (C04)", "stride registers (derived from layout by get_strides)"]
BOUNDS = {"groups": "ifm_addr, ofm_addr, weights (2 cores), biases, tiles, zero points, padding, regions, activation clamp (with/without scale), pooling OFM scale, DMA (lengths up to 2^38 on U65)",
          "accelerators": "Ethos_U55_128, Ethos_U65_512"}


def ENCODED():
    import ethosu.vela.register_command_stream_generator as g
    import ethosu.vela.register_command_stream_util as u

    E = g.CommandStreamEmitter
    return [g.generate_register_command_stream, g.generate_command_stream, g.check_mem_limits, g.generate_registers_for_op, g.generate_common, g.generate_ifm, g.generate_ofm, g.generate_addresses,
            g.generate_tiles, g.generate_padding, g.generate_kernel, g.generate_weights, g.generate_biases, g.generate_activation,
            g.generate_block_config, g.generate_dma_op, g.generate_ofm_scaling_for_pooling, g.generate_operation_code, g.generate_cmd_waits,
            E.cmd0_with_param, E.cmd1_with_offset, E.cmd1_with_address, E.cmd_do_operation, E.cmd_wait, g.RegisterMachine.set_register,
            u.check_alignment, u.check_length, u.check_addresses, u.check_dma_op, u.get_wait_dependency]


def _shims():
    import ethosu.vela.register_command_stream_generator as g
    import ethosu.vela.register_command_stream_util as u
    import ethosu.vela.range_set as rs

    return ((g, {"int": core.sint, "min": core.smin, "max": core.smax}), (u, {"min": core.smin, "max": core.smax, "int": core.sint}),
            (rs, {"min": core.smin, "max": core.smax}))


def _template(accel, kind):
    from ethosu.vela import api as a

    def fm(h, w, d, region, addr, dt=a.NpuDataType.UINT8):
        f = a.NpuFeatureMap()
        f.data_type = dt
        f.shape = a.NpuShape3D(h, w, d)
        f.tiles = a.NpuTileBox(width_0=w, height_0=h, height_1=h, addresses=[addr, 0, 0, 0])
        f.region = region
        f.layout = a.NpuLayout.NHWC
        f.quantization = a.NpuQuantization(scale_f32=1.0, zero_point=0)
        return f

    if kind == "conv":
        op = a.NpuConv2DOperation()
        op.ifm = fm(8, 8, 16, 1, 0x1000)
        op.ofm = fm(8, 8, 16, 1, 0x8000)
        op.kernel = a.NpuKernel(3, 3, 1, 1, 1, 1)
        op.padding = a.NpuPadding(1, 1, 1, 1)
        op.weights = [a.NpuAddressRange(0, 0x100, 160)] + ([a.NpuAddressRange(0, 0x400, 160)] if accel.endswith("512") else [])
        op.biases = [a.NpuAddressRange(0, 0x800, 32)] + ([a.NpuAddressRange(0, 0x900, 32)] if accel.endswith("512") else [])
        op.block_traversal = a.NpuBlockTraversal.DEPTH_FIRST
        op.block_config = a.NpuShape3D(2, 2, 16)
    elif kind == "pool":
        from ethosu.vela.operation import ExplicitScaling

        op = a.NpuPoolingOperation(a.NpuPoolingOp.AVERAGE)
        op.ifm = fm(8, 8, 16, 1, 0x1000)
        op.ofm = fm(8, 8, 16, 1, 0x8000)
        op.kernel = a.NpuKernel(1, 1, 1, 1, 1, 1)
        op.padding = a.NpuPadding(0, 0, 0, 0)
        op.block_config = a.NpuShape3D(2, 2, 16)
        op.rescale = ExplicitScaling(False, [30], [1 << 30])
    else:
        op = a.NpuDmaOperation(a.NpuAddressRange(0, 0x1000, 256), a.NpuAddressRange(1, 0x4000, 256))
    return op


def _set_group(V, op, group, tag, accel):
    """make the fields of `group` symbolic on op; returns list of (description, z3 Bool) facts assumed legal"""
    from ethosu.vela import api as a
    from ethosu.vela.operation import ExplicitScaling

    amax = (1 << 40) - 1 if "U65" in accel else (1 << 32) - 1
    iv = lambda n, lo, hi: V.int("%s_%s" % (n, tag), lo, hi)  # noqa
    if group == "ifm_addr":
        ads = [iv("ifm_base%d" % i, 0, amax - 4096) for i in range(2)]
        op.ifm.tiles = op.ifm.tiles._replace(addresses=ads + [0, 0])
    elif group == "ofm_addr":
        ads = [iv("ofm_base%d" % i, 0, amax - 4096) for i in range(2)]
        op.ofm.tiles = op.ofm.tiles._replace(addresses=ads + [0, 0])
    elif group == "weights":
        n = len(op.weights)
        # the last core's range is symbolic (with 2 cores the first stays as in the template: keeps the elision path count small)
        op.weights = op.weights[:n - 1] + [a.NpuAddressRange(0, iv("w%d_addr" % (n - 1), 0, amax - (1 << 24)), iv("w%d_len" % (n - 1), 0, (1 << 24)))]
    elif group == "biases":
        n = len(op.biases)
        op.biases = op.biases[:n - 1] + [a.NpuAddressRange(0, iv("b%d_addr" % (n - 1), 0, amax - (1 << 24)), iv("b%d_len" % (n - 1), 0, (1 << 24)))]
    elif group == "tiles":
        op.ifm.tiles = op.ifm.tiles._replace(height_0=iv("h0", 1, 8), height_1=iv("h1", 1, 8), width_0=iv("w0", 1, 8))
    elif group == "zp":
        op.ifm.quantization = a.NpuQuantization(1.0, iv("ifm_zp", 0, 255))
        op.ofm.quantization = a.NpuQuantization(1.0, iv("ofm_zp", 0, 255))
    elif group == "pad":
        op.padding = a.NpuPadding(iv("pt", 0, 2), iv("pl", 0, 2), iv("pb", 0, 2), iv("pr", 0, 2))
    elif group == "region":
        op.ifm.region = V.choice("ifm_region_%s" % tag, [0, 1, 5, 7])
        op.ofm.region = V.choice("ofm_region_%s" % tag, [1, 2, 7])
    elif group == "depth":
        pass
    elif group == "activation":
        # explicit clamp given in real values; quantisation with and without a scale (a zero point without a scale is legal)
        sc = V.choice("ofm_scale_kind_%s" % tag, [None, 0.5, 1.0])
        op.ofm.quantization = a.NpuQuantization(sc, iv("ofm_zp", 0, 128))
        op.activation = a.NpuActivation(a.NpuActivationOp.NONE_OR_RELU)
        op.activation.min = 0.0
        op.activation.max = V.choice("act_max_%s" % tag, [6.0, 1.0])
    elif group == "ofm_scale":
        op.rescale = ExplicitScaling(False, [iv("shift", 0, 63)], [iv("mult", 0, (1 << 32) - 1)])
    elif group == "dma":
        # regions: 0/1 = external memory, 259 = BASE_PTR_INDEX_MEM2MEM (the NPU's internal SHRAM)
        sreg = V.choice("src_region_%s" % tag, [0, 1, 259])
        dreg = V.choice("dst_region_%s" % tag, [1, 259])
        internal = sreg == 259 or dreg == 259
        # external-to-external transfers may be as long as the address space allows (more than 32 bits on U65)
        ln = iv("len", 1, 4096 if internal else amax // 4)
        return a.NpuDmaOperation(a.NpuAddressRange(sreg, iv("src", 0, 8192 if sreg == 259 else amax // 4), ln),
                                 a.NpuAddressRange(dreg, iv("dst", 0, 8192 if dreg == 259 else amax // 4), ln))
    return op


def _expected(op, accel):
    """reference register values for the (direct) fields of an operation: name -> z3 Int of the full register value
    (cmd1: parameter * 2^32 + payload)"""
    from ethosu.vela import api as a

    e = {}
    if isinstance(op, a.NpuDmaOperation):
        e["NPU_SET_DMA0_SRC_REGION"] = L(op.src.region)
        e["NPU_SET_DMA0_SRC"] = L(op.src.address)
        e["NPU_SET_DMA0_DST_REGION"] = L(op.dest.region)
        e["NPU_SET_DMA0_DST"] = L(op.dest.address)
        e["NPU_SET_DMA0_LEN"] = L(op.src.length)
        return e
    for pfx, f in (("IFM", op.ifm), ("OFM", op.ofm)):
        e["NPU_SET_%s_REGION" % pfx] = L(f.region)
        for i in range(4):
            e["NPU_SET_%s_BASE%d" % (pfx, i)] = L(f.tiles.addresses[i])
        e["NPU_SET_%s_HEIGHT0_M1" % pfx] = L(f.tiles.height_0) - 1
        e["NPU_SET_%s_HEIGHT1_M1" % pfx] = L(f.tiles.height_1) - 1
        e["NPU_SET_%s_WIDTH0_M1" % pfx] = L(f.tiles.width_0) - 1
        e["NPU_SET_%s_ZERO_POINT" % pfx] = L(f.quantization.zero_point)
    e["NPU_SET_IFM_DEPTH_M1"] = L(op.ifm.shape.depth) - 1
    e["NPU_SET_OFM_HEIGHT_M1"] = L(op.ofm.shape.height) - 1
    e["NPU_SET_OFM_WIDTH_M1"] = L(op.ofm.shape.width) - 1
    e["NPU_SET_OFM_DEPTH_M1"] = L(op.ofm.shape.depth) - 1
    if op.padding is not None:
        e["NPU_SET_IFM_PAD_TOP"] = L(op.padding.top)
        e["NPU_SET_IFM_PAD_LEFT"] = L(op.padding.left)
        e["NPU_SET_IFM_PAD_BOTTOM"] = L(op.padding.bottom)
        e["NPU_SET_IFM_PAD_RIGHT"] = L(op.padding.right)
    k = op.kernel
    e["NPU_SET_KERNEL_HEIGHT_M1"] = L(k.dilation_y) * (L(k.height) - 1)
    e["NPU_SET_KERNEL_WIDTH_M1"] = L(k.dilation_x) * (L(k.width) - 1)
    e["NPU_SET_OFM_BLK_HEIGHT_M1"] = L(op.block_config.height) - 1
    e["NPU_SET_OFM_BLK_WIDTH_M1"] = L(op.block_config.width) - 1
    e["NPU_SET_OFM_BLK_DEPTH_M1"] = L(op.block_config.depth) - 1
    ncores = 2 if accel.endswith("512") else 1
    if op.weights:
        e["NPU_SET_WEIGHT_REGION"] = L(op.weights[0].region)
        for c, (bn, ln) in enumerate((("NPU_SET_WEIGHT_BASE", "NPU_SET_WEIGHT_LENGTH"), ("NPU_SET_WEIGHT1_BASE", "NPU_SET_WEIGHT1_LENGTH"))):
            if c < len(op.weights):
                e[bn], e[ln] = L(op.weights[c].address), L(op.weights[c].length)
            elif c < ncores:
                e[bn], e[ln] = L(op.weights[0].address), L(0)
    if op.biases:
        e["NPU_SET_SCALE_REGION"] = L(op.biases[0].region)
        for c, (bn, ln) in enumerate((("NPU_SET_SCALE_BASE", "NPU_SET_SCALE_LENGTH"), ("NPU_SET_SCALE1_BASE", "NPU_SET_SCALE1_LENGTH"))):
            if c < len(op.biases):
                e[bn], e[ln] = L(op.biases[c].address), L(op.biases[c].length)
            elif c < ncores:
                e[bn], e[ln] = L(op.biases[0].address), L(0)
    if op.activation is not None and op.activation.min is not None:
        q = op.ofm.quantization
        sc = 1.0 if q.scale_f32 is None else q.scale_f32
        lo = L(q.zero_point) + int(round(op.activation.min / sc))
        hi = L(q.zero_point) + int(round(op.activation.max / sc))
        e["NPU_SET_ACTIVATION_MIN"] = lo
        e["NPU_SET_ACTIVATION_MAX"] = z3.If(hi > 255, 255, hi)
    if isinstance(op, a.NpuPoolingOperation) and op.rescale is not None:
        e["NPU_SET_OFM_SCALE"] = L(op.rescale.shift[0]) * (1 << 32) + L(op.rescale.multiplier[0])
    return e


def _decode(words, nops):
    """reference decoder: returns list of (op word name, register file snapshot, waits seen before the op), and trailing info"""
    from ethosu.vela.ethos_u55_regs.ethos_u55_regs import cmd0, cmd1

    regs = {}
    ops = []
    waits = []
    i = 0
    bad = []
    stop_count = 0
    while i < len(words):
        w = words[i]
        lo = z3.simplify(L(w) % 65536)
        if not z3.is_int_value(lo):
            bad.append("command code of word %d is not concrete" % i)
            break
        code = lo.as_long()
        param = L(w) / 65536
        if code & 0x4000:
            name = cmd1(code & 0x3FF).name
            if i + 1 >= len(words):
                bad.append("truncated cmd1")
                break
            payload = L(words[i + 1])
            regs[name] = (param, payload)
            i += 2
            continue
        name = cmd0(code & 0x3FF).name
        if name.startswith("NPU_OP_"):
            if name in ("NPU_OP_KERNEL_WAIT", "NPU_OP_DMA_WAIT"):
                waits.append(name)
            elif name == "NPU_OP_STOP":
                stop_count += 1
                if i != len(words) - 1:
                    bad.append("STOP is not the last word")
            else:
                ops.append((name, dict(regs), list(waits), param))
                waits = []
        else:
            regs[name] = (param, None)
        i += 1
    return ops, stop_count, bad, waits


def pair(V, accel, kind, group):
    import ethosu.vela.register_command_stream_generator as g
    import ethosu.vela.register_command_stream_util as u
    from ethosu.vela import api as a
    from harness.c04 import arch_for

    arch = arch_for(accel)
    op1 = _set_group(V, _template(accel, kind), group, "1", accel)
    op2 = _set_group(V, _template(accel, kind), group, "2", accel)
    saved = g.calc_blockdep
    g.calc_blockdep = lambda *a_: 0
    saved_acc = g.get_op_memory_accesses
    if group == "tiles":
        # symbolic tile splits make the per-tile address ranges (and with them the wait analysis) fork heavily; waits are examined by the
        # other groups and by C04, so this group runs with empty access sets
        from ethosu.vela.range_set import MemoryAccessSet

        g.get_op_memory_accesses = lambda op, arch_: MemoryAccessSet()
    u_cache = getattr(__import__("ethosu.vela.range_set", fromlist=["x"]).MemoryAccessSet.conflicts, "cache_clear", None)
    if u_cache:
        u_cache()
    err = None
    try:
        with core.shims(*_shims()):
            words = g.generate_register_command_stream([op1, op2], a.NpuAccelerator[accel])  # the public generator entry point
    except (g.ByteAlignmentError, g.ByteSizeError) as e:
        err = e
    finally:
        g.calc_blockdep = saved
        g.get_op_memory_accesses = saved_acc
    # ---- hardware alignment rules for the symbolic group (everything else in the template is aligned)
    viol = []
    for op in (op1, op2):
        if isinstance(op, a.NpuDmaOperation):
            if "U65" in accel:  # only internal (SHRAM) addresses must be aligned; the length too if the destination is internal
                if op.src.region == 259:
                    viol += [L(op.src.address) % 16 != 0]
                if op.dest.region == 259:
                    viol += [L(op.dest.address) % 16 != 0, L(op.src.length) % 16 != 0]
            else:
                viol += [L(op.src.address) % 16 != 0, L(op.dest.address) % 16 != 0, L(op.src.length) % 16 != 0]
        else:
            for wr in op.weights:
                viol += [L(wr.address) % 16 != 0, L(wr.length) % 16 != 0]
            for br in op.biases:
                viol += [L(br.length) % 16 != 0]
    broken = z3.Or(*viol) if viol else z3.BoolVal(False)
    if err is not None:
        return [("alignment/length error only when a hardware alignment rule is broken", broken)]
    cl = [("an operation breaking a hardware alignment rule is rejected", z3.Not(broken))]
    ops, stops, bad, trailing_waits = _decode(words, 2)
    for b in bad:
        cl.append((b, False))
    cl.append(("exactly one STOP, as the last word", stops == 1))
    cl.append(("one NPU_OP word per operation", len(ops) == 2))
    cl.append(("no wait after the last operation", trailing_waits == []))
    if len(ops) != 2:
        return cl
    for idx, (op, (name, regs, waits, opparam)) in enumerate(zip((op1, op2), ops)):
        want_name = {"conv": "NPU_OP_CONV", "pool": "NPU_OP_POOL", "dma": "NPU_OP_DMA_START"}[kind]
        cl.append(("op %d: operation word kind" % idx, name == want_name))
        exp = _expected(op, accel)
        for reg, val in sorted(exp.items()):
            if reg not in regs:
                cl.append(("op %d: register %s was never written" % (idx, reg), False))
                continue
            param, payload = regs[reg]
            if payload is None:
                cl.append(("op %d: %s holds the operation's value (no truncation)" % (idx, reg), param == val))
            else:
                cl.append(("op %d: %s holds the operation's value incl. parameter bits (no truncation)" % (idx, reg),
                           z3.And(payload == val % (1 << 32), param == val / (1 << 32), payload >= 0, payload < (1 << 32), param >= 0, param < 65536)))
    return cl


FUNCS = {"pair": pair}


def instances(tier, seed):
    out = []
    conv_groups = ["ifm_addr", "ofm_addr", "weights", "biases", "tiles", "zp", "pad", "region", "activation"]
    for accel in ("Ethos_U55_128", "Ethos_U65_512"):
        for gname in conv_groups:
            out.append(dict(key="pair/%s/conv/%s" % (accel, gname), fn="pair", params=dict(accel=accel, kind="conv", group=gname), weight=100))
        for gname in ("ofm_scale", "ifm_addr", "zp"):
            out.append(dict(key="pair/%s/pool/%s" % (accel, gname), fn="pair", params=dict(accel=accel, kind="pool", group=gname), weight=100))
        out.append(dict(key="pair/%s/dma/dma" % accel, fn="pair", params=dict(accel=accel, kind="dma", group="dma"), weight=100))
    return out
