"""C02 - NPU memory accesses stay inside the declared regions (partial: address-generation kernels and limit checks).

footprint  : for a feature map with symbolic height, tile split, base addresses and a symbolic element coordinate, the byte address the
             hardware tile/stride rule gives lies inside one of the address ranges get_address_ranges() declares (the ranges that
             check_mem_limits and the wait analysis see), and equals get_address().
mem_limits : check_mem_limits raises exactly when some declared range starts below 0 or ends beyond its region's limit, or names
             an unknown region.
rolling    : Tensor.addresses_for_rolling_buffer / address_for_coordinate on a real Tensor used as a rolling buffer: every row of
             a stripe's box is addressed, through the (at most two) tiles returned, at slot (row mod buffer height) inside
             [address, address + storage size).
nhcwb16    : _avoid_nhcwb16_for_shapes keeps the brick format only when every producer/consumer shape equals the tensor's shape.
regions    : get_region / mem_type_size / get_mem_limits_for_regions: fast scratch is limited to arena_cache_size exactly when spilling is
             enabled; region 0 (constants) is only produced for permanent memory types.
"""
import z3

from symx import core
from symx.core import SInt, SBool, L, B

EXPLANATION = "C02: footprint-in-declared-ranges, exact limit check, rolling-buffer tile addressing, region mapping."
SHIMS = ["register_command_stream_util / range_set / tensor / numeric_util: min,max -> ite shims, int -> identity on proxies"]
ASSUMPTIONS = ["hardware addressing rule: tile selected by x >= width_0 / y >= height_0 (height_1 for the right-hand tiles); NHWC address = base + "
               "y*stride_y + x*stride_x + c*elem; NHCWB16 address = base + y*stride_y + (c//16)*stride_c + x*16*elem + (c%16)*elem",
               "rolling buffer: row r of the logical tensor lives in slot r mod buffer_height; a stripe's box is at most buffer_height rows "
               "(established by the C10 cascade lemma)"]
OUTSIDE = ["composition over a compiled network: allocator address + footprint <= published tensor sizes", "graph-level format decisions (NHCWB16 avoidance)"]
BOUNDS = {"footprint": "width in {1,3,8}, depth in {1,16,17,40}, element size 1/2, NHWC and NHCWB16; height, tiles, addresses, coordinate symbolic",
          "rolling": "buffer height in {2,3,4,6}, width in {1,5}, depth in {16,24}; box rows, address, row symbolic"}


def ENCODED():
    import ethosu.vela.npu_performance  # noqa (import cycle)
    import ethosu.vela.scheduler as sch
    import ethosu.vela.register_command_stream_util as u
    import ethosu.vela.register_command_stream_generator as g
    import ethosu.vela.tensor as t
    import ethosu.vela.high_level_command_to_npu_op as h2n
    import ethosu.vela.architecture_features as af

    return [__import__('ethosu.vela.graph_optimiser_util', fromlist=['x']).check_format_restrictions, h2n.modify_tile_addresses_for_padding, sch.Scheduler.propose_weight_buffering, h2n.create_weights, g.generate_weights, g.generate_biases, u.get_strides, u.get_address, u.get_address_range, u.get_address_ranges, g.check_mem_limits, t.Tensor.addresses_for_rolling_buffer,
            t.Tensor.address_for_coordinate, t.Tensor.get_strides, t.Tensor.get_augmented_coord, __import__('ethosu.vela.graph_optimiser_util', fromlist=['x'])._avoid_nhcwb16_for_shapes, h2n.get_region, h2n.get_mem_limits_for_regions,
            af.ArchitectureFeatures.mem_type_size, af.ArchitectureFeatures.is_spilling_enabled,
            __import__("ethosu.vela.tflite_graph_optimiser", fromlist=["x"]).convert_resize_to_upscale_and_average_pool,
            __import__("ethosu.vela.tflite_graph_optimiser", fromlist=["x"]).convert_resizenn_ac_to_depthwise_conv]


def footprint(V, layout, width, depth, elem):
    import ethosu.vela.register_command_stream_util as u
    from ethosu.vela import api as a

    H = V.int("H", 1, 4096)
    h0 = V.int("height_0", 1, 4096)
    h1 = V.int("height_1", 1, 4096)
    w0 = V.int("width_0", 1, width)
    bases = [V.int("base%d" % i, 0, 1 << 32) for i in range(4)]
    y = V.int("y", 0, 4095)
    x = V.int("x", 0, width - 1)
    c = V.int("c", 0, depth - 1)
    V.assume(L(y) < L(H))
    fm = a.NpuFeatureMap()
    fm.data_type = a.NpuDataType.INT8 if elem == 1 else a.NpuDataType.INT16
    fm.shape = a.NpuShape3D(H, width, depth)
    fm.tiles = a.NpuTileBox(height_0=h0, height_1=h1, width_0=w0, addresses=bases)
    fm.region = 1
    fm.layout = a.NpuLayout.NHWC if layout == "NHWC" else a.NpuLayout.NHCWB16
    with core.shims((u, {"min": core.smin, "max": core.smax, "int": core.IntShim})):
        strides = u.get_strides(fm)
        ranges = u.get_address_ranges(fm)
        got = u.get_address(fm, strides, y, x, c)
    # hardware rule
    if layout == "NHWC":
        sx, sy = depth * elem, width * depth * elem
        off = lambda yy, xx: yy * sy + xx * sx + L(c) * elem  # noqa
    else:
        sy = elem * width * (-(-depth // 16) * 16)
        sc = 16 * elem * width
        off = lambda yy, xx: yy * sy + (L(c) / 16) * sc + xx * 16 * elem + (L(c) % 16) * elem  # noqa
    right = L(x) >= L(w0)
    low_l = L(y) >= L(h0)
    low_r = L(y) >= L(h1)
    addr = z3.If(right, z3.If(low_r, L(bases[3]) + off(L(y) - L(h1), L(x) - L(w0)), L(bases[1]) + off(L(y), L(x) - L(w0))),
                 z3.If(low_l, L(bases[2]) + off(L(y) - L(h0), L(x)), L(bases[0]) + off(L(y), L(x))))
    inside = []
    for r in ranges:
        if r is not None:
            inside.append(z3.And(L(r.address) <= addr, addr + elem <= L(r.address) + L(r.length)))
    return [("get_address == hardware tile/stride rule", L(got) == addr),
            ("the element's bytes lie inside a declared address range of the feature map", z3.Or(*inside) if inside else z3.BoolVal(False))]


def mem_limits(V, shape):
    """shape: list of (direction, region) for up to 3 ranges"""
    import ethosu.vela.register_command_stream_generator as g
    import ethosu.vela.range_set as rs
    from ethosu.vela.range_set import AccessDirection as AD

    acc = rs.MemoryAccessSet()
    lim = {0: V.int("limit0", 0, 1 << 40), 1: V.int("limit1", 0, 1 << 40)}
    bad = []
    with core.shims((rs, {"min": core.smin, "max": core.smax})):
        for i, (d, region) in enumerate(shape):
            s = V.int("s%d" % i, -(1 << 20), 1 << 41)
            e = V.int("e%d" % i, -(1 << 20), 1 << 41)
            V.assume(L(s) < L(e))
            acc.add(rs.MemoryRangeSet(region, s, e), AD.Read if d == "R" else AD.Write)
            if region in lim:
                bad.append(z3.Or(L(s) < 0, L(e) > L(lim[region])))
            else:
                bad.append(z3.BoolVal(True))
        try:
            g.check_mem_limits(acc, lim)
            raised = False
        except g.VelaError:
            raised = True
    return [("VelaError exactly when a range leaves its region or names an unknown region", z3.BoolVal(raised) == z3.Or(*bad))]


def rolling(V, B_h, width, depth, fmt):
    import ethosu.vela.tensor as tm
    import ethosu.vela.numeric_util as nu
    from ethosu.vela.tensor import Tensor, TensorFormat, TensorSubPurpose, TensorPurpose, MemArea, MemType, TensorAddressMap
    from ethosu.vela.data_type import DataType
    from ethosu.vela.shape4d import Shape4D

    Hfull = 64
    t = Tensor([1, Hfull, width, depth], DataType.int8, "rb")
    t.purpose = TensorPurpose.FeatureMap
    t.mem_area, t.mem_type = MemArea.Sram, MemType.Scratch_fast
    t.force_linear_format = fmt != "NHCWB16"
    t.set_format(TensorFormat.NHCWB16 if fmt == "NHCWB16" else TensorFormat.NHWC, _arch())
    t.set_new_sub_purpose(TensorSubPurpose.RollingBufferY, B_h, None)
    base = V.int("address", 0, 1 << 30)
    V.assume(L(base) % 16 == 0)
    TensorAddressMap.address_map[t.equivalence_id].pop(t.mem_type, None)
    s = V.int("box_start", 0, Hfull - 1)
    e = V.int("box_end", 1, Hfull)
    y = V.int("row", 0, Hfull - 1)
    x = V.int("x", 0, width - 1)
    V.assume(z3.And(L(s) < L(e), L(e) - L(s) <= B_h, L(y) >= L(s), L(y) < L(e)))
    op_shape = Shape4D(1, Hfull, width, depth)
    with core.shims((tm, {"min": core.smin, "max": core.smax, "int": core.IntShim}), (nu, {"int": core.IntShim})):
        t.address = base
        strides = t.get_strides(op_shape)
        h0, h0b, bw, addrs = t.addresses_for_rolling_buffer([0, s, 0, 0], [1, e, width, depth], strides, op_shape)
        direct = t.address_for_coordinate([0, y, x, 0], strides, op_shape)
        size = t.storage_size()
    TensorAddressMap.address_map[t.equivalence_id].pop(t.mem_type, None)
    stride_y, stride_x = strides[2], strides[3]
    local = L(y) - L(s)
    hw = z3.If(local < L(h0), L(addrs[0]) + local * stride_y, L(addrs[2]) + (local - L(h0)) * stride_y) + L(x) * stride_x
    slot = L(y) % B_h
    return [("tile 0 is at least one row and no taller than the box", z3.And(L(h0) >= 1, L(h0) <= L(e) - L(s))),
            ("box width is the full width (no vertical striping)", L(bw) == width),
            ("row addressed through the returned tiles == address_for_coordinate of that row", hw == L(direct)),
            ("row lives in slot row mod buffer_height", L(direct) == L(base) + slot * stride_y + L(x) * stride_x),
            ("addressed bytes inside the tensor's storage", z3.And(hw >= L(base), hw + depth <= L(base) + L(size))),
            ("second tile only when the box wraps", z3.Or(L(addrs[2]) == 0, L(h0) < L(e) - L(s)))]


_A = {}


def _arch(name="Ethos_U55_128"):
    from harness.c04 import arch_for

    return arch_for(name)


def regions(V, accel):
    import ethosu.vela.high_level_command_to_npu_op as h2n
    import ethosu.vela.architecture_features as af
    from ethosu.vela.tensor import MemType, MemArea

    base = _arch(accel)
    arch = af.ArchitectureFeatures.__new__(af.ArchitectureFeatures)
    arch.__dict__.update(base.__dict__)
    ports = [af.MemPort.Axi0, af.MemPort.Axi1]
    arch.cache_mem_area = V.choice("cache_port", ports)
    arch.arena_mem_area = V.choice("arena_port", ports)
    arch.axi0_port = V.choice("axi0", [MemArea.Sram, MemArea.Dram, MemArea.OffChipFlash])
    arch.axi1_port = V.choice("axi1", [MemArea.Sram, MemArea.Dram, MemArea.OffChipFlash])
    arch.arena_cache_size = V.int("arena_cache_size", 0, base.max_address_offset)
    spilling = (arch.axi0_port if arch.cache_mem_area == af.MemPort.Axi0 else arch.axi1_port) == MemArea.Sram and arch.cache_mem_area != arch.arena_mem_area
    lim = h2n.get_mem_limits_for_regions(arch)
    cl = []
    for mt in MemType.all():
        r = h2n.get_region(mt, arch)
        cl.append(("region 0 (constants) only for permanent memory types (%s)" % mt.name, (r == 0) == (mt in (MemType.Permanent_NPU, MemType.Permanent_CPU))))
    rf = h2n.get_region(MemType.Scratch_fast, arch)
    rs_ = h2n.get_region(MemType.Scratch, arch)
    cl.append(("fast scratch has its own region exactly when spilling is enabled", (rf != rs_) == spilling))
    if spilling:
        cl.append(("fast scratch region is limited to arena_cache_size (hard limit)", L(lim[rf]) == L(arch.arena_cache_size)))
    else:
        cl.append(("without spilling the scratch region limit is the maximum address", L(lim[rs_]) == base.max_address_offset))
    cl.append(("SHRAM region limit is the SHRAM size", lim[h2n.BASE_PTR_INDEX_MEM2MEM] == base.shram_size_bytes))
    return cl


def nhcwb16_shapes(V, nprod, ncons):
    """brick format (NHCWB16) is only kept when every producer and consumer views the tensor with the tensor's own 4-D shape - otherwise
    an operator writes/reads it with strides derived from a different shape than the one it was allocated for.  Symbolic shapes."""
    import ethosu.vela.graph_optimiser_util as gu
    from ethosu.vela.shape4d import Shape4D
    from ethosu.vela.operation import Op

    def shp(tag):
        return [1] + [V.int("%s_%s" % (tag, d), 1, 64) for d in "hwc"]

    ts = shp("tensor")
    tens = _O(shape=ts)
    diffs = []
    prods, conss = [], []
    for i in range(nprod):
        s_ = shp("prod%d" % i)
        prods.append(_O(ofm_shapes=[Shape4D(s_)], ofm=tens, type=Op.Conv2DBias))
        diffs.append(z3.Or(*[L(a) != L(b) for a, b in zip(ts, s_)]))
    for i in range(ncons):
        s_ = shp("cons%d" % i)
        conss.append(_O(ifm=tens, ifm2=None, ifm_shapes=[Shape4D(s_), None], type=Op.Conv2DBias))
        diffs.append(z3.Or(*[L(a) != L(b) for a, b in zip(ts, s_)]))
    tens.ops, tens.consumer_list = prods, conss
    got = gu._avoid_nhcwb16_for_shapes(tens)
    return [("NHCWB16 is avoided exactly when some producer/consumer shape differs from the tensor's", z3.BoolVal(bool(got)) == z3.Or(*diffs))]


class _O:
    def __init__(self, **kw):
        self.__dict__.update(kw)


def fm_in_tensor(V, tshape, opshape, transpose, elem):
    """create_feature_map: every element of the operation's box, addressed with the strides and tiles the feature map gets, lies
    inside the tensor's allocation [address, address + storage_size) - also for the OFM of a TRANSPOSE, which is iterated in IFM
    coordinates with swapped H/W strides, and for tensors whose own shape folds the dimensions differently from the operation shape."""
    import ethosu.vela.high_level_command_to_npu_op as h2n
    import ethosu.vela.tensor as tm
    import ethosu.vela.numeric_util as nu
    from ethosu.vela.tensor import Tensor, TensorFormat, TensorPurpose, MemArea, MemType, TensorAddressMap
    from ethosu.vela.data_type import DataType
    from ethosu.vela.shape4d import Shape4D
    from ethosu.vela.high_level_command_stream import Box
    from ethosu.vela.operation import Op

    arch = _arch()
    t = Tensor(list(tshape), DataType.int8 if elem == 1 else DataType.int16, "fm")
    t.purpose = TensorPurpose.FeatureMap
    t.mem_area, t.mem_type = MemArea.Sram, MemType.Scratch
    t.force_linear_format = True
    t.set_format(TensorFormat.NHWC, arch)
    t.ops = [_O(original_type=Op.Transpose if transpose else Op.Conv2DBias)]
    TensorAddressMap.address_map[t.equivalence_id].pop(t.mem_type, None)
    base = V.int("address", 0, 1 << 30)
    V.assume(L(base) % 16 == 0)
    op_shape = Shape4D(*opshape)
    y = V.int("y", 0, op_shape.height - 1)
    x = V.int("x", 0, op_shape.width - 1)
    c = V.int("c", 0, op_shape.depth - 1)
    with core.shims((tm, {"min": core.smin, "max": core.smax, "int": core.IntShim}), (nu, {"int": core.IntShim}), (h2n, {"int": core.IntShim})):
        t.address = base
        fm = h2n.create_feature_map(t, Box([0, 0, 0, 0], list(opshape)), arch, op_shape, [0, 0, 0, 0], None, True)
        size = t.storage_size()
    TensorAddressMap.address_map[t.equivalence_id].pop(t.mem_type, None)
    addr = L(fm.tiles.addresses[0]) + L(y) * L(fm.strides.height) + L(x) * L(fm.strides.width) + L(c) * elem
    return [("single tile covering the box", z3.And(L(fm.tiles.height_0) >= op_shape.height, L(fm.tiles.width_0) >= op_shape.width)),
            ("every addressed element lies inside the tensor's allocation", z3.And(addr >= L(base), addr + elem <= L(base) + L(size)))]


def lr_rolling(V, **params):
    """bytes reserved for a cascade's rolling buffer == bytes the scheduler budgets == elements x element size of the stored data
    (the same lemma as C03 lr_rolling: an under-sized reservation lets accesses leave the published arena)"""
    from harness import c03

    return c03.lr_rolling(V, **params)


def weight_ranges(V, **params):
    """weight and scale ranges of an operation name the region and bytes of the tensor that really holds them (harness/c08.py weight_ranges;
    registered here because a range addressed through the wrong region reads outside that region's published extent)"""
    from harness import c08

    return c08.weight_ranges(V, **params)


def rolling_dims(V):
    """cascade_builder.rolling_buffer_shape: the rolling buffer between two cascaded operators is as wide as the wider of what the producer
    writes and the consumer reads (a strided consumer may need fewer columns than the producer writes), at least as deep as the producer's
    stripe rounded to the 16-channel brick, and holds a producer stripe plus a consumer stripe of rows.  The live range and the allocation
    are sized from this shape while the tensor's strides and the producer's writes use the full width."""
    import ethosu.vela.cascade_builder as cb
    from ethosu.vela.shape4d import Shape4D

    ph, pw, pd = V.int("producer_h", 1, 4096), V.int("producer_w", 1, 4096), V.int("producer_d", 1, 4096)
    ch, cw = V.int("consumer_in_h", 1, 4096), V.int("consumer_in_w", 1, 4096)
    with core.shims((cb, {"max": core.smax, "min": core.smin})):
        r = cb.rolling_buffer_shape(Shape4D([1, ph, pw, pd]), Shape4D([1, ch, cw, pd]))
    return [("as wide as the producer's stripe and the consumer's input", z3.And(L(r.width) >= L(pw), L(r.width) >= L(cw), z3.Or(L(r.width) == L(pw), L(r.width) == L(cw)))),
            ("whole 16-channel bricks covering the producer's depth", z3.And(L(r.depth) >= L(pd), L(r.depth) % 16 == 0, L(r.depth) < L(pd) + 16)),
            ("rows for a producer stripe and a consumer stripe", z3.And(L(r.height) >= L(ph) + L(ch), L(r.height) % L(ch) == 0, L(r.height) < L(ph) + 2 * L(ch))),
            ("one batch", L(r.batch) == 1)]


def weight_dma(V, **params):
    """the weight DMA of a depth slice reads exactly that slice of the encoded tensor and stays inside the SRAM buffer (harness/c08.py encode:
    real create_dma_op / create_weights on the real encoder's ranges) - a longer transfer reads past the constants tensor"""
    from harness import c08

    return c08.encode(V, **params)


def restripe_buffers(V, **params):
    """SRAM weight buffers of a re-striped schedule are sized from the re-encoded weights (harness/c10.py restripe_buffers)"""
    from harness import c10

    return c10.restripe_buffers(V, **params)


def programmed_kernel(V, **params):
    """the footprint the compiler analyses (check_mem_limits, address ranges) is derived from the operation's shapes and strides; the NPU derives
    the rows and columns it reads from the KERNEL_STRIDE / KERNEL_SIZE registers - they must carry the operation's kernel, or the hardware reads
    rows the analysis never saw (harness/c06.py pair, kernel group: symbolic kernel size and strides incl. the extension bits)"""
    from harness import c06

    return c06.pair(V, **params)


def idle_core(V, **params):
    """an operation with fewer weight/scale ranges than cores programs length 0 for the idle core instead of leaving the previous operation's
    base and length in its registers (harness/c06.py pair, weights/biases groups on the two-core accelerator)"""
    from harness import c06

    return c06.pair(V, **params)


def buffering(V, **params):
    """every weight depth slice fits the SRAM buffer the command generator DMAs it into (harness/c08.py buffering: the real
    Scheduler.propose_weight_buffering over symbolic slice sizes) - an overrun writes outside the buffer's extent, over a neighbouring tensor"""
    from harness import c08

    return c08.buffering(V, **params)


def resize_lowering(V, kind, factor):
    """a RESIZE lowered to x2 nearest-neighbour stages and a final average pool never makes the NPU fetch rows or columns its input does not have:
    the REAL convert_resize_to_upscale_and_average_pool on a real Operation with SYMBOLIC input height and width (output = input x factor, or
    (input - 1) x factor + 1 with align_corners), factor 2 / 4 / 8.  The hardware derives the extent it reads from the OFM size, the kernel and
    the padding: per stage (OFM - 1) + kernel - padding before - padding after rows of the x2-upscaled input.  Claims per stage and axis: that
    extent is exactly twice the stage's input extent; the stages are chained (each reads the previous one's output) and the last writes the
    original output tensor."""
    import ethosu.vela.tflite_graph_optimiser as go
    from ethosu.vela.operation import Op, Operation, Padding
    from ethosu.vela.tensor import Tensor, QuantizationParameters
    from ethosu.vela.data_type import DataType
    from ethosu.vela.ethos_u55_regs.ethos_u55_regs import resampling_mode

    align = kind.endswith("_align_corners")
    bilinear = kind.startswith("bilinear")
    h, w = V.int("ifm_height", 2, 512), V.int("ifm_width", 2, 512)
    out = (lambda d: (d - 1) * factor + 1) if align else (lambda d: d * factor)
    q = QuantizationParameters()
    q.scale_f32, q.zero_point = 0.5, 0
    ifm, ofm = Tensor([1, h, w, 8], DataType.int8, "ifm"), Tensor([1, out(h), out(w), 8], DataType.int8, "ofm")
    ifm.quantization, ofm.quantization = q.clone(), q.clone()
    size = Tensor([2], DataType.int32, "size")
    op = Operation(Op.ResizeBilinear if bilinear else Op.ResizeNearestNeighbor, "resize")
    op.inputs, op.outputs = [ifm, size], [ofm]
    ofm.ops = [op]
    op.attrs = {"align_corners": align, "half_pixel_centers": False, "upscale_factor": factor}
    op.run_on_npu = True
    stages = []

    class DB:
        @staticmethod
        def add_optimised(parent, new):
            if not any(new is x for x in stages):
                stages.append(new)

    saved = go.DebugDatabase
    go.DebugDatabase = DB
    try:
        with core.shims((go, {"int": core.IntShim, "max": core.smax, "min": core.smin})):
            op.set_ifm_ofm_shapes()
            go.convert_resize_to_upscale_and_average_pool(op)
    finally:
        go.DebugDatabase = saved
    n = {2: 1, 4: 2, 8: 3}[factor]
    cl = [("one stage per factor of two", len(stages) == n), ("the last stage writes the original output tensor", stages and stages[-1].outputs[0] is ofm),
          ("the first stage reads the original input", stages and stages[0].inputs[0] is ifm)]
    for i, st in enumerate(stages):
        if i:
            cl.append(("stage %d reads the output of stage %d" % (i, i - 1), st.inputs[0] is stages[i - 1].outputs[0]))
        cl.append(("stage %d upscales its input x2 (nearest)" % i, st.ifm_resampling_mode == resampling_mode.NEAREST))
        k = st.attrs["ksize"]
        pad = st.attrs.get("padding")
        if st.type not in (Op.ResizeBilinear, Op.ResizeNearestNeighbor):
            # align_corners nearest neighbour: the last stage is a depthwise convolution that selects one sample (convert_resizenn_ac_to_depthwise_conv)
            wt = st.inputs[1]
            depth = int(ofm.shape[-1])
            vals = wt.values
            cl.append(("stage %d: a factor x factor depthwise kernel per channel, one bias per channel" % i,
                       st.type == Op.DepthwiseConv2DBias and list(wt.shape) == [factor, factor, 1, depth] and list(vals.shape) == [factor, factor, 1, depth]
                       and st.inputs[2] is not None and list(st.inputs[2].shape) == [depth]))
            cl.append(("stage %d: every channel selects the one centre sample" % i,
                       all(int(vals[:, :, 0, c].sum()) == 1 and int(vals[factor // 2, factor // 2, 0, c]) == 1 for c in range(depth))))
            cl.append(("stage %d: unpadded" % i, st.attrs.get("padding") == Padding.VALID))
            for axis, name in ((1, "rows"), (2, "columns")):
                cl.append(("stage %d: the %s the NPU fetches are exactly the x2-upscaled input" % (i, name),
                           (L(st.outputs[0].shape[axis]) - 1) + factor == 2 * L(st.inputs[0].shape[axis])))
            continue
        ep = st.attrs.get("explicit_padding", [0, 0, 0, 0]) if pad == Padding.EXPLICIT else [0, 0, 0, 0]
        same_1x1 = pad == Padding.SAME and tuple(k) == (1, 1, 1, 1)
        cl.append(("stage %d: padding mode is one the extent rule below covers" % i, pad in (Padding.EXPLICIT, Padding.VALID) or same_1x1))
        ishape, oshape = st.inputs[0].shape, st.outputs[0].shape
        for axis, name, before, after in ((1, "rows", ep[0], ep[2]), (2, "columns", ep[1], ep[3])):
            need = (L(oshape[axis]) - 1) + L(k[axis]) - L(before) - L(after)
            cl.append(("stage %d: the %s the NPU fetches are exactly the x2-upscaled input (%d-wide kernel, padding %s+%s)" % (i, name, int(k[axis]), before, after),
                       need == 2 * L(ishape[axis])))
    return cl


def tile_padding(V, W, C, elem, direction):
    """tile padding (2x2 depthwise convolutions of a half-pixel-centres bilinear resize): modify_tile_addresses_for_padding re-points the four
    tiles so that the (H+1)x(W+1) window the kernel reads replicates the edge row/column.  For every element (y, x, c) of that window the byte the
    hardware tile rule addresses is the byte of the replicated element of the HxWxC NHCWB16 tensor - in particular inside the tensor's storage.
    Symbolic height, base address, element; enumerated width, depth, element size, padding direction."""
    import ethosu.vela.high_level_command_to_npu_op as h2n
    from ethosu.vela import api as a
    from ethosu.vela.data_type import DataType

    H = V.int("H", 1, 4096)
    base = V.int("base", 0, 1 << 32)
    y, x, c = V.int("y", 0, 4096), V.int("x", 0, W), V.int("c", 0, C - 1)
    V.assume(L(y) <= L(H))
    box = a.NpuTileBox(height_0=H, height_1=H, width_0=W, addresses=[base, 0, 0, 0])
    with core.shims((h2n, {"min": core.smin, "max": core.smax, "int": core.IntShim})):
        t = h2n.modify_tile_addresses_for_padding(box, tuple(direction), channels=C, dtype=DataType.int16 if elem == 2 else DataType.int8)
    c16 = -(-C // 16) * 16
    sy = elem * W * c16
    sc = 16 * elem * W
    off = lambda yy, xx: yy * sy + (L(c) / 16) * sc + xx * 16 * elem + (L(c) % 16) * elem  # noqa
    h0, h1, w0 = L(t.height_0), L(t.height_1), L(t.width_0)
    ad = [L(v) for v in t.addresses]
    right = L(x) >= w0
    addr = z3.If(right, z3.If(L(y) >= h1, ad[3] + off(L(y) - h1, L(x) - w0), ad[1] + off(L(y), L(x) - w0)),
                 z3.If(L(y) >= h0, ad[2] + off(L(y) - h0, L(x)), ad[0] + off(L(y), L(x))))
    top, left, bottom, rightp = direction
    oy = z3.If(L(y) >= 1, L(y) - 1, 0) if top else z3.If(L(y) <= L(H) - 1, L(y), L(H) - 1)
    ox = z3.If(L(x) >= 1, L(x) - 1, 0) if left else z3.If(L(x) <= W - 1, L(x), W - 1)
    want = L(base) + off(oy, ox)
    return [("the padded window replicates the edge element", addr == want),
            ("every byte read lies inside the tensor", z3.And(addr >= L(base), addr + elem <= L(base) + L(H) * sy))]


def format_rules(V, nprod, ncons, accel="Ethos_U55_128"):
    """the REAL check_format_restrictions on a tensor with stand-in producers and consumers whose kind (block operation, Memcpy = DMA copy,
    ReduceSum, half-pixel bilinear depthwise convolution), NPU/CPU placement, read/write depth offsets and shapes are symbolic: the brick format
    (NHCWB16, force_linear_format = False) is only chosen when every party can address bricks - no CPU party, no DMA copy on either side (a copy
    moves the linear bytes), depth offsets multiples of 16, every party's view shape equal to the tensor's, no stride-modifying producer, no
    ReduceSum consumer that needs NHWC.  Necessary conditions restated from the addressing rules; the function may be more conservative."""
    import ethosu.vela.graph_optimiser_util as gu
    from ethosu.vela.shape4d import Shape4D
    from ethosu.vela.operation import Op
    from ethosu.vela.data_type import DataType
    from harness.c04 import arch_for

    arch = arch_for(accel)
    ts = [1, 8, 8, 32]
    tens = _O(shape=ts, force_linear_format=None, dtype=DataType.int8, name="t")
    must = []
    prods, conss = [], []
    for i in range(nprod):
        kind = V.choice("prod%d_kind" % i, ["block", "memcpy", "resize_dw"])
        npu = V.bool("prod%d_on_npu" % i)
        wo = V.int("prod%d_write_depth" % i, 0, 64)
        same = V.bool("prod%d_same_shape" % i)
        has_wo = V.bool("prod%d_has_write_offset" % i) if nprod + ncons <= 2 else True  # three parties: offsets always present (0 = aligned)
        t = {"block": Op.Conv2DBias, "memcpy": Op.Memcpy, "resize_dw": Op.DepthwiseConv2DBias}[kind]
        shape = Shape4D(ts) if same else Shape4D([1, 8, 4, 64])
        prods.append(_O(type=t, original_type=Op.ResizeBilinear if kind == "resize_dw" else t, run_on_npu=npu, memory_function=None,
                        write_offset=Shape4D([0, 0, 0, wo]) if has_wo else None, ofm_shapes=[shape], ofm=tens))
        must += [B(npu), z3.BoolVal(kind == "block"), B(same), z3.Or(z3.Not(B(has_wo)), L(wo) % 16 == 0)]
    for i in range(ncons):
        kind = V.choice("cons%d_kind" % i, ["block", "memcpy", "reducesum"])
        npu = V.bool("cons%d_on_npu" % i)
        ro = V.int("cons%d_read_depth" % i, 0, 64)
        same = V.bool("cons%d_same_shape" % i)
        has_ro = V.bool("cons%d_has_read_offset" % i) if nprod + ncons <= 2 else True
        t = {"block": Op.Conv2DBias, "memcpy": Op.Memcpy, "reducesum": Op.ReduceSum}[kind]
        shape = Shape4D(ts) if same else Shape4D([1, 8, 4, 64])
        conss.append(_O(type=t, run_on_npu=npu, ifm=tens, ifm2=None, ifm_shapes=[shape, None], read_offsets=[Shape4D([0, 0, 0, ro]) if has_ro else None, None]))
        must += [B(npu), z3.BoolVal(kind != "memcpy"), B(same), z3.Or(z3.Not(B(has_ro)), L(ro) % 16 == 0)]
        if kind == "reducesum" and accel == "Ethos_U65_512":
            must.append(z3.BoolVal(False))
    tens.ops, tens.consumer_list = prods, conss
    with core.shims((gu, {"min": core.smin, "max": core.smax, "any": _any, "all": _all})):
        gu.check_format_restrictions(tens, arch)
    brick = tens.force_linear_format is False  # Tensor.needs_linear_format: True and None (undecided) both mean linear
    if not brick:
        return None  # linear format is always addressable: the path is not subject to the claim (and does not count as reaching it)
    return [("the brick format is only chosen when every producer and consumer can address bricks", z3.And(*must))]


def _any(it):
    for x in it:
        if x:
            return True
    return False


def _all(it):
    for x in it:
        if not x:
            return False
    return True


def footprint_strided(V, first_dense):
    """a feature map with EXPLICIT strides (a depth slice of a deeper NHWC tensor: the element stride along the width is k times the slice's own
    depth): every element's bytes lie inside the address ranges get_address_ranges declares for it - also when an otherwise identical dense
    feature map (same region, base, shape, tiles, type, layout) was analysed earlier in the same process."""
    import ethosu.vela.register_command_stream_util as u
    from ethosu.vela import api as a

    H, W, D = 8, 4, 16
    k = V.int("slice_of_k_times_deeper_tensor", 1, 4)
    y, x, c = V.int("y", 0, H - 1), V.int("x", 0, W - 1), V.int("c", 0, D - 1)

    def fm(strides):
        f = a.NpuFeatureMap()
        f.data_type = a.NpuDataType.INT8
        f.shape = a.NpuShape3D(H, W, D)
        f.tiles = a.NpuTileBox(height_0=H, height_1=H, width_0=W, addresses=[4096, 0, 0, 0])
        f.region = 1
        f.layout = a.NpuLayout.NHWC
        f.strides = strides
        return f

    sx = D * k
    sy = W * sx
    base = 4096
    with core.shims((u, {"min": core.smin, "max": core.smax, "int": core.IntShim})):
        if first_dense == 1:
            u.get_address_ranges(fm(None))
        view = fm(a.NpuShape3D(height=sy, width=sx, depth=1))
        if first_dense == 2:
            # the SAME feature-map object analysed, then re-targeted (API users and the stripe loop reuse operation objects), then analysed again
            u.get_address_ranges(view)
            base = V.int("new_base", 0, 1 << 24)
            view.tiles = a.NpuTileBox(height_0=H, height_1=H, width_0=W, addresses=[base, 0, 0, 0])
        ranges = u.get_address_ranges(view)
    addr = L(base) + L(y) * L(sy) + L(x) * L(sx) + L(c)
    inside = [z3.And(L(r.address) <= addr, addr + 1 <= L(r.address) + L(r.length)) for r in ranges if r is not None]
    return [("every element of the strided view lies inside a declared address range", z3.Or(*inside) if inside else z3.BoolVal(False))]


FUNCS = {"resize_lowering": resize_lowering, "restripe_buffers": restripe_buffers, "programmed_kernel": programmed_kernel, "footprint_strided": footprint_strided, "format_rules": format_rules, "tile_padding": tile_padding, "rolling_dims": rolling_dims, "weight_dma": weight_dma, "buffering": buffering, "weight_ranges": weight_ranges, "idle_core": idle_core, "fm_in_tensor": fm_in_tensor, "lr_rolling": lr_rolling, "nhcwb16_shapes": nhcwb16_shapes, "footprint": footprint, "mem_limits": mem_limits, "rolling": rolling, "regions": regions}


def instances(tier, seed):
    out = []
    for kind in ("bilinear", "bilinear_align_corners", "nearest", "nearest_align_corners"):
        for factor in (2, 4, 8):
            out.append(dict(key="resize_lowering/%s/x%d" % (kind, factor), fn="resize_lowering", params=dict(kind=kind, factor=factor)))
    for layout in ("NHWC", "NHCWB16"):
        for width in (1, 3, 8):
            for depth in (1, 16, 17, 40):
                for elem in (1, 2):
                    out.append(dict(key="footprint/%s/w%d_d%d_e%d" % (layout, width, depth, elem), fn="footprint",
                                    params=dict(layout=layout, width=width, depth=depth, elem=elem), weight=20))
    shapes = [[("R", 0)], [("W", 1)], [("R", 0), ("W", 1)], [("R", 0), ("R", 0), ("W", 0)], [("W", 1), ("W", 1), ("R", 0)], [("R", 5)], [("W", 0), ("R", 5)]]
    for i, sh in enumerate(shapes):
        out.append(dict(key="mem_limits/%d" % i, fn="mem_limits", params=dict(shape=[list(t) for t in sh])))
    for B_h in (2, 3, 4, 6):
        for width in (1, 5):
            for depth in (16, 24):
                for fmt in ("NHCWB16", "NHWC"):
                    out.append(dict(key="rolling/B%d_w%d_d%d_%s" % (B_h, width, depth, fmt), fn="rolling", params=dict(B_h=B_h, width=width, depth=depth, fmt=fmt)))
    for accel in ("Ethos_U55_128", "Ethos_U65_256"):
        out.append(dict(key="regions/%s" % accel, fn="regions", params=dict(accel=accel)))
    fm_cases = [([1, 4, 6, 16], [1, 4, 6, 16], 0), ([1, 6, 4, 16], [1, 4, 6, 16], 1), ([16, 8], [1, 8, 16, 1], 1), ([1, 16, 8], [1, 8, 16, 1], 1), ([8, 1, 16], [1, 16, 1, 8], 1),
                ([1, 1, 16, 8], [1, 8, 16, 1], 1), ([1, 16, 1, 8], [1, 8, 1, 16], 1), ([24, 5], [1, 1, 24, 5], 0), ([3, 5, 7], [1, 3, 5, 7], 0)]
    for tshape, opshape, tr in fm_cases:
        for elem in (1, 2):
            out.append(dict(key="fm_in_tensor/t%s/op%s/%s/e%d" % ("x".join(map(str, tshape)), "x".join(map(str, opshape)), "transpose" if tr else "plain", elem),
                            fn="fm_in_tensor", params=dict(tshape=tshape, opshape=opshape, transpose=tr, elem=elem)))
    for cin in (1, 3):
        for md, od in (("int16", "int8"), ("int8", "int16")):
            out.append(dict(key="lr_rolling/cin%d/%s_%s" % (cin, md, od), fn="lr_rolling", params=dict(cin=cin, mid_dtype=md, out_dtype=od)))
    from harness import c08

    for inst in c08.instances(tier, seed):
        if inst["fn"] in ("weight_ranges", "buffering"):
            out.append(dict(key=inst["key"], fn=inst["fn"], params=inst["params"]))
        if inst["fn"] == "encode":
            out.append(dict(key="weight_dma/" + inst["key"], fn="weight_dma", params=inst["params"], weight=inst.get("weight", 1)))
    for gname in ("weights", "biases"):
        out.append(dict(key="idle_core/%s" % gname, fn="idle_core", params=dict(accel="Ethos_U65_512", kind="conv", group=gname, light=True), weight=100))
    out.append(dict(key="rolling_dims", fn="rolling_dims", params={}))
    for nb in (1, 2):
        out.append(dict(key="restripe_buffers/%d" % nb, fn="restripe_buffers", params=dict(nbuf=nb)))
    for accel, kinds in (("Ethos_U55_128", ("conv",) if tier == "quick" else ("conv", "dw", "pool")), ("Ethos_U65_512", ("dw",) if tier == "quick" else ("conv", "dw", "pool"))):
        for kind in kinds:
            out.append(dict(key="programmed_kernel/%s/%s" % (accel, kind), fn="programmed_kernel", params=dict(accel=accel, kind=kind, group="kernel"), weight=100))
    for fd in (0, 1, 2):
        out.append(dict(key="footprint_strided/%s" % ("alone", "after_dense", "retargeted")[fd], fn="footprint_strided", params=dict(first_dense=fd)))
    for nprod, ncons in ((1, 1), (1, 2), (2, 1)):
        for accel in ("Ethos_U55_128", "Ethos_U65_512"):
            if tier == "quick" and nprod + ncons > 2 and accel != "Ethos_U55_128":
                continue
            out.append(dict(key="format_rules/p%d_c%d/%s" % (nprod, ncons, accel), fn="format_rules", params=dict(nprod=nprod, ncons=ncons, accel=accel), weight=30))
    for W in (1, 2, 5):
        for C in (1, 16, 17, 32, 40):
            for elem in (1, 2):
                for d in ((1, 1, 0, 0), (1, 0, 0, 1), (0, 1, 1, 0), (0, 0, 1, 1)):
                    if tier == "quick" and (elem == 2) != (C in (16, 40)):
                        continue
                    out.append(dict(key="tile_padding/w%d_c%d_e%d/%s" % (W, C, elem, "".join(map(str, d))), fn="tile_padding",
                                    params=dict(W=W, C=C, elem=elem, direction=list(d))))
    for nprod, ncons in ((1, 1), (1, 2), (2, 1), (1, 0)):
        out.append(dict(key="nhcwb16_shapes/p%d_c%d" % (nprod, ncons), fn="nhcwb16_shapes", params=dict(nprod=nprod, ncons=ncons)))
    return out
