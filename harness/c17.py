"""C17 - the driver payload frames the command stream correctly.

header : create_driver_payload for a stream of SYMBOLIC length n in [0, 2^25] (one query family covers every length):
         COP1 tag, config action, config + id words for the accelerator, NOP padding to a 16-byte boundary, declared length == n,
         total size; n >= 2^24 must raise VelaError (never a wrapped length).
content: concrete n in 0..4 with symbolic 32-bit words: the payload bytes after the header are the words, little-endian, unmodified.
api    : npu_create_driver_payload (public API) gives the same framing per accelerator.
"""
import builtins
import struct as _struct

import z3

from symx import core, rat
from symx.core import SInt, L, B

EXPLANATION = "C17: payload header for every stream length (symbolic), little-endian word identity, config word per accelerator."
ACCELS = ["Ethos_U55_32", "Ethos_U55_64", "Ethos_U55_128", "Ethos_U55_256", "Ethos_U65_256", "Ethos_U65_512"]
# independent table (Ethos-U product data): product id, log2(MACs per cycle over all cores), SHRAM KiB over all cores
TABLE = {"Ethos_U55_32": (0, 5, 16), "Ethos_U55_64": (0, 6, 16), "Ethos_U55_128": (0, 7, 24), "Ethos_U55_256": (0, 8, 48),
         "Ethos_U65_256": (1, 8, 48), "Ethos_U65_512": (1, 9, 96)}
ARCH_VERSION = (1, 0, 6)  # architecture version the command stream targets (regs file ARCH_VER)
BOUNDS = {"header": "stream length symbolic in [0, 2^25]; 6 accelerators", "content": "n in 0..4 words, each symbolic in [0, 2^32)"}
ASSUMPTIONS = ["command words are unsigned 32-bit values (what CommandStreamEmitter.to_list produces)",
               "symbolic mode models struct.pack('<nI') by a shim that interprets the format string (endianness, count, width) and "
               "raises struct.error for out-of-range words; the shim is validated against the real struct in symx.selfcheck and the "
               "replay uses the real struct.pack"]
OUTSIDE = ["command_stream tensors inside written output files (npu_serialisation wiring)"]
SHIMS = ["driver_actions.len -> symbolic length for the stand-in stream", "driver_actions.struct.pack -> word/byte-level model"]


def ENCODED():
    import ethosu.vela.driver_actions as da

    import ethosu.vela.register_command_stream_generator as g

    return [g.generate_command_stream, g.CommandStreamEmitter.size_in_bytes, g.CommandStreamEmitter.to_list, da.create_driver_payload, da.emit_fourcc, da.emit_config, da.build_config_word, da.build_id_word,
            da.emit_cmd_stream_header, da.make_da_tag, da.npu_create_driver_payload]


class _Stream:
    def __init__(self, n, words=()):
        self.sym_len = n
        self.words = list(words)

    def __iter__(self):
        return iter(self.words)


def _slen(x):
    if hasattr(x, "sym_len"):
        return x.sym_len
    return builtins.len(x)


class _Packed:
    def __init__(self, little, words):
        self.little, self.words = little, words


class _SStruct:
    error = _struct.error

    @staticmethod
    def pack(fmt, *vals):
        order = fmt[0] if fmt[0] in "<>=!@" else "@"  # no prefix = native order (little-endian on the platforms the reader model assumes)
        body = fmt[1:] if fmt[0] in "<>=!@" else fmt
        if not body.endswith("I"):
            raise core.Unmodelled("struct format %r" % fmt)
        cnt = int(body[:-1] or "1")
        if cnt != builtins.len(vals):
            raise _struct.error("pack expected %d items for packing (got %d)" % (cnt, builtins.len(vals)))
        for v in vals:
            if isinstance(v, SInt):
                bad = core.SBool(z3.Or(v.e < 0, v.e >= 2**32))
                if bad:
                    raise _struct.error("argument out of range")
            elif not 0 <= v < 2**32:
                raise _struct.error("argument out of range")
        return _Packed(order in "<=@", list(vals))


def _words(res):
    """payload -> list of 32-bit words as seen by a little-endian reader (the driver)"""
    if isinstance(res, _Packed):
        if res.little:
            return res.words
        # big-endian packing: byte-swap each word for the little-endian reader
        out = []
        for w in res.words:
            w = L(w)
            out.append(SInt((w % 256) * 2**24 + ((w / 256) % 256) * 2**16 + ((w / 65536) % 256) * 256 + (w / 2**24) % 256))
        return out
    assert isinstance(res, (bytes, bytearray)) and len(res) % 4 == 0
    return list(_struct.unpack("<%dI" % (len(res) // 4), bytes(res)))


def _header_claims(w, accel, n, nwords_total):
    """w: first 16 words (concrete or symbolic) ; n: declared stream length; returns claims + index of first command word"""
    prod, lmacs, shram = TABLE[accel]
    cl = [("fourcc COP1", L(w[0]) == 0x31504F43),
          ("config action tag (id 1, release 0, patch 1)", L(w[1]) == (0x01 | (0x10 << 16))),
          ("config word matches accelerator", L(w[2]) == (lmacs | (0 << 4) | (shram << 8) | (prod << 28))),
          ("id word carries arch version", L(w[3]) == ((ARCH_VERSION[2] << 16) | (ARCH_VERSION[1] << 20) | (ARCH_VERSION[0] << 28)))]
    # find the CmdStream tag: words 4.. are NOPs (0x05) until a word whose low byte is 0x02
    h = None
    for i in range(4, min(len(w), 12)):
        wi = w[i]
        lo = z3.simplify(L(wi) % 256)
        if z3.is_int_value(lo) and lo.as_long() == 0x05:
            cl.append(("NOP word %d is a pure NOP tag" % i, L(wi) == 0x05))
            continue
        h = i
        break
    if h is None:
        return cl + [("CmdStream action found", False)], None
    cl.append(("CmdStream action id", L(w[h]) % 256 == 0x02))
    cl.append(("command words start on a 16-byte boundary", (h + 1) % 4 == 0))
    declared = ((L(w[h]) / 256) % 256) * 65536 + (L(w[h]) / 65536)
    cl.append(("declared length == number of command words", declared == L(n)))
    cl.append(("header word fits 32 bits", z3.And(L(w[h]) >= 0, L(w[h]) < 2**32)))
    cl.append(("payload size == header + stream", L(nwords_total) == h + 1 + L(n)))
    return cl, h + 1


def header(V, accel):
    import ethosu.vela.driver_actions as da
    from harness.c04 import arch_for

    arch = arch_for(accel)
    n = V.int("n", 0, 2**25)
    if V.symbolic:
        stream = _Stream(n)
    else:
        stream = [0] * n
    limit = 1 << 24
    with core.shims((da, {"len": _slen, "struct": _SStruct, "int": core.sint})):
        try:
            res = da.create_driver_payload(stream, arch)
        except da.VelaError:
            return [("VelaError only for streams of 2^24 words or more", L(n) >= limit)]
    w = _words(res)
    total = len(w) + (n if V.symbolic else 0)  # symbolic mode: the stand-in stream contributes no concrete words
    cl, first = _header_claims(w, accel, n, total)
    cl.append(("streams of 2^24 words or more are rejected", L(n) < limit))
    return cl


def content(V, accel, n):
    import ethosu.vela.driver_actions as da
    from harness.c04 import arch_for

    arch = arch_for(accel)
    ws = [V.int("w%d" % i, 0, 2**32 - 1) for i in range(n)]
    with core.shims((da, {"struct": _SStruct, "int": core.sint})):
        res = da.create_driver_payload(list(ws), arch)
    w = _words(res)
    cl, first = _header_claims(w, accel, n, len(w))
    if first is not None:
        for i in range(n):
            cl.append(("command word %d unmodified, little-endian" % i, L(w[first + i]) == L(ws[i])))
    return cl


def api(V, accel, n):
    """public API entry (concrete accelerator enum, short symbolic stream)"""
    import ethosu.vela.driver_actions as da
    from ethosu.vela.api import NpuAccelerator, npu_create_driver_payload

    ws = [V.int("w%d" % i, 0, 2**32 - 1) for i in range(n)]
    with core.shims((da, {"struct": _SStruct, "int": core.sint})):
        res = npu_create_driver_payload(list(ws), NpuAccelerator[accel])
    w = _words(res)
    cl, first = _header_claims(w, accel, n, len(w))
    if first is not None:
        for i in range(n):
            cl.append(("command word %d unmodified" % i, L(w[first + i]) == L(ws[i])))
    return cl


def sequence(V, first, second):
    """two payloads created one after the other in the same process (a driver library or the external API serving several accelerators):
    the second payload's header describes the SECOND accelerator, whatever was built before"""
    import ethosu.vela.driver_actions as da
    from ethosu.vela.api import NpuAccelerator, npu_create_driver_payload

    cl = []
    for idx, accel in enumerate((first, second)):
        ws = [V.int("w%d_%d" % (idx, i), 0, 2**32 - 1) for i in range(2)]
        with core.shims((da, {"struct": _SStruct, "int": core.sint})):
            res = npu_create_driver_payload(list(ws), NpuAccelerator[accel])
        w = _words(res)
        c, first_word = _header_claims(w, accel, 2, len(w))
        cl += [("payload %d (%s): %s" % (idx + 1, accel, n), e) for n, e in c]
        if first_word is not None:
            cl += [("payload %d: command word %d unmodified" % (idx + 1, i), L(w[first_word + i]) == L(ws[i])) for i in range(2)]
    return cl


class _Bulk:
    """stand-in for the commands emitted for earlier operations: W words (symbolic), nothing to iterate"""

    def __init__(self, w):
        self.sym_len = w

    def __iter__(self):
        return iter(())


def stream_limit(V, accel, kind):
    """the generator's own hardware-limit guard (generate_command_stream): a stream of 2^24 bytes (2^22 words) or more is rejected.  The
    commands of earlier operations are abstracted by one entry of W words (symbolic) placed in the emitter before a real operation is
    generated; replay uses a real tuple of W words."""
    import ethosu.vela.register_command_stream_generator as g
    from ethosu.vela.errors import VelaError
    from harness.c06 import _template
    from harness.c04 import arch_for

    arch = arch_for(accel)
    W = V.int("earlier_words", 0, 1 << 23)
    real = g.CommandStreamEmitter

    class Emitter(real):
        def __init__(self):
            real.__init__(self)
            self.cmd_stream.append(_Bulk(W) if V.symbolic else (0,) * int(W))

    op = _template(accel, kind)
    limits = {r: arch.max_address_offset for r in range(8)}
    limits[259] = arch.shram_size_bytes
    saved = g.CommandStreamEmitter
    g.CommandStreamEmitter = Emitter
    # class attributes referenced through the class name inside methods (CommandStreamEmitter.WORD_SIZE) resolve to the subclass: same values
    try:
        with core.shims((g, {"len": _slen})):
            try:
                words = g.generate_command_stream([op], arch, False, limits)
            except VelaError:
                words = None
    finally:
        g.CommandStreamEmitter = saved
    if words is None:
        # the words of the real operation are not known on this path; the guard may only fire when the stream can reach the limit at all
        return [("VelaError only when the stream reaches 2^22 words", L(W) + 200 >= (1 << 22))]
    emitted = len(words) - (int(W) if not V.symbolic else 0)
    return [("a stream of 2^22 words (16 MiB) or more is rejected", L(W) + emitted < (1 << 22)),
            ("the operation's own commands are a handful of words", emitted < 200)]


FUNCS = {"header": header, "content": content, "api": api, "stream_limit": stream_limit, "sequence": sequence}


def instances(tier, seed):
    out = []
    for a in ACCELS:
        out.append(dict(key="header/%s" % a, fn="header", params=dict(accel=a)))
        for n in range(0, 5):
            out.append(dict(key="content/%s/%d" % (a, n), fn="content", params=dict(accel=a, n=n)))
        out.append(dict(key="api/%s" % a, fn="api", params=dict(accel=a, n=2)))
    for a in ACCELS:
        for b in ACCELS:
            if a != b:
                out.append(dict(key="sequence/%s_then_%s" % (a, b), fn="sequence", params=dict(first=a, second=b)))
    for a in ("Ethos_U55_128", "Ethos_U65_512"):
        for kind in ("conv", "dma"):
            out.append(dict(key="stream_limit/%s/%s" % (a, kind), fn="stream_limit", params=dict(accel=a, kind=kind)))
    return out
