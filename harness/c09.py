"""C09 - quantised multipliers reproduce the real scale to reference precision.

All float reasoning is in IEEE-754 theory (z3 FP, RNE); claims are phrased in bit-vectors over the float's fields.
qs      : quantise_scale over ALL positive normal float64 / float32 values (one query family).
rqs     : reduced_quantise_scale (int16 form).
classes : zero / subnormal / inf / nan / huge / tiny inputs degrade to (0, 16) or stay in range - never a wrapped value.
pool    : quantise_pooling_scale(n): for EVERY accumulator of an 8/16-bit window, (a*scale + 2^(shift-1)) >> shift == round(a / n).
addsub  : add/sub scale derivation: independent of NumPy scalar promotion (== evaluation in double), faithful quantisation of the
          rescale factors, operand selection.
mul     : elementwise_mul_scale == quantise(s1*s2/so as computed).
"""
import math
import struct

import numpy as np
import z3

from symx import core, fp
from symx.core import SInt, SBool, L, B
from symx.fp import SFloat

EXPLANATION = "C09: scale quantisation over all normal floats in IEEE theory; pooling divisor vs exact division; add/sub/mul derivations."
SHIMS = ["scaling.math.frexp -> bit-level frexp on the IEEE fields", "numeric_util.np.trunc -> fpRoundToIntegral(RTZ)",
         "scaling.int -> fpToSBV(RTZ) on proxies", "scaling.max/min -> fork on the IEEE comparison"]
ASSUMPTIONS = [
    "qs/rqs main harness: input is a positive normal float (all 2^52 mantissas x all exponents in one symbolic query); zero, subnormal, "
    "infinite and NaN inputs are enumerated by class in `classes`",
    "TFLite reference QuantizeMultiplier: q = TfLiteRound(frac * 2^31) with frac in [0.5,1); encoded independently as the integer "
    "(2^52+mant + 2^21) >> 22; a multiplier of exactly 2^31 with shift s denotes the same value as TFLite's (2^30, s-1)",
    "pooling: for negative accumulators at an exact tie (n even) either rounding direction is accepted (TFLite's int8 AveragePool rounds "
    "half away from zero, the property text says half up); everything off an exact negative tie is exact",
    "reduced form: scales with full-precision shift >= 16 (x < 2^15), the range int16 operators can produce",
    "add/sub reference = evaluation of the same derivation in IEEE double from the same inputs (what TFLite's double arithmetic and "
    "NumPy 1.x scalar promotion produced)",
]
OUTSIDE = ["precision in which the reference forms s1*s2/so for MUL (float vs double differs between TFLite versions)",
           "transcendental paths of generate_ofm_scaling_for_pooling (log2) for int16 sigmoid/tanh"]
BOUNDS = {"quick": {"pool": "windows 1..1024, all 2^k and 2^k+-1 up to 65536, seeded sample; int8/uint8/int16 accumulators",
                    "qs": "all positive normal float64 and float32"},
          "thorough": {"pool": "every window 1..65536"}}


def ENCODED():
    import ethosu.vela.scaling as sc
    import ethosu.vela.numeric_util as nu

    return [sc.quantise_scale, sc.reduced_quantise_scale, sc.quantise_pooling_scale, sc.elementwise_mul_scale,
            sc.simplified_elementwise_add_sub_scale, sc.advanced_elementwise_add_sub_scale, nu.round_away_zero]


def _shims():
    import ethosu.vela.scaling as sc
    import ethosu.vela.numeric_util as nu

    return ((sc, {"math": fp.SMATH, "int": core.sint, "max": core.smax, "min": core.smin, "float": fp.sfloat}), (nu, {"np": fp.SNUMPY}))


def _bv64(x):
    """integer result (proxy or concrete) -> 64-bit vector"""
    if isinstance(x, SInt):
        if x.bv is not None:
            return z3.SignExt(64 - x.bv.size(), x.bv) if x.bv.size() < 64 else x.bv
        return z3.Int2BV(x.e, 64)
    return z3.BitVecVal(int(x), 64)


def _fields(x):
    """(mantissa with hidden bit as 64-bit vector, unbiased frexp exponent as z3 Int, IEEE double term) of a float-like"""
    d = fp.as_f64(x) if isinstance(x, SFloat) else z3.FPVal(float(x), fp.F64)
    bv = z3.fpToIEEEBV(d)
    m = z3.Concat(z3.BitVecVal(1, 12), z3.Extract(51, 0, bv))
    e = z3.BV2Int(z3.Extract(62, 52, bv), False) - 1022
    return m, e, d


def _qs_claims(x, q, shift, tag=""):
    """claims for a (multiplier, shift) pair returned for positive normal x (value = m * 2^(e-53))"""
    m, e, d = _fields(x)
    qb = _bv64(q)
    ref = z3.LShR(m + z3.BitVecVal(1 << 21, 64), 22)  # TFLite: round-half-away(frac * 2^31), frac = m / 2^53
    want_shift = 31 - e
    in_range = z3.And(want_shift >= 0, want_shift < 64)
    diff = z3.If(z3.UGE(z3.BitVecVal(1 << 22, 64) * qb, m), (1 << 22) * qb - m, m - (1 << 22) * qb)
    return [(tag + "in-range scale: multiplier equals the TFLite reference multiplier", z3.Implies(in_range, qb == ref)),
            (tag + "in-range scale: multiplier in [2^30, 2^31]", z3.Implies(in_range, z3.And(z3.UGE(qb, 1 << 30), z3.ULE(qb, 1 << 31)))),
            (tag + "in-range scale: |multiplier*2^-31 - frac| <= 2^-32 (relative error <= 2^-31)", z3.Implies(in_range, z3.ULE(diff, 1 << 21))),
            (tag + "in-range scale: shift == 31 - exponent, in [0, 63]", z3.Implies(in_range, z3.And(L(shift) == want_shift, L(shift) >= 0, L(shift) <= 63))),
            (tag + "out-of-range scale degrades to (0, 16)", z3.Implies(z3.Not(in_range), z3.And(qb == 0, L(shift) == 16)))]


def qs(V, kind):
    import ethosu.vela.scaling as sc

    x = V.extra("float", "x", kind)
    V.assume(z3.And(z3.fpIsNormal(fp.F(x)), z3.fpIsPositive(fp.F(x))))
    with core.shims(*_shims()):
        q, shift = sc.quantise_scale(x)
    return _qs_claims(x, q, shift)


def rqs(V, zero):
    """reduced_quantise_scale, compositionally: quantise_scale is replaced by an arbitrary pair satisfying the post-condition the
    `qs` harness establishes for it (multiplier in [2^30, 2^31] with shift in [0, 63], or the degraded pair (0, 16)); the reduction
    itself is then pure integer arithmetic."""
    import ethosu.vela.scaling as sc

    if zero:
        q, shift = 0, 16
    else:
        q = V.int("q", 1 << 30, 1 << 31)
        shift = V.int("shift", 16, 63)  # range of the reduced form, see ASSUMPTIONS
    saved = sc.quantise_scale
    sc.quantise_scale = lambda scale: (q, shift)
    try:
        with core.shims(*_shims()):
            rm, rshift = sc.reduced_quantise_scale(1.0)
    finally:
        sc.quantise_scale = saved
    if zero:
        return [("degraded full pair stays a zero multiplier", z3.And(L(rm) == 0, L(rshift) >= 0, L(rshift) < 64))]
    err = L(rm) * 65536 - L(q)
    err = z3.If(err < 0, -err, err)
    return [("reduced multiplier fits a positive int16", z3.And(L(rm) >= 0, L(rm) <= 32767)),
            ("reduced shift == full shift - 16, in [0, 47]", z3.And(L(rshift) == L(shift) - 16, L(rshift) >= 0, L(rshift) <= 47)),
            ("reduced pair within 2^-14 (relative) of the full pair", err * 16384 <= L(q)),
            ("rounds to nearest unless saturated", z3.Or(err <= 32768, L(rm) == 32767)),
            # the TFLite reference for 16-bit activations with 64-bit bias reduces the Q31 multiplier as (m + 2^15) >> 16 below 0x7FFF0000, else 0x7FFF
            ("the reduced multiplier is the reference reduction (half-way values round up)",
             L(rm) == z3.If(L(q) < 32767 * 65536, (L(q) + 32768) / 65536, 32767))]


def _special_values():
    vals = {"zero": 0.0, "min_subnormal": 5e-324, "max_subnormal": 2.2250738585072009e-308,
            "huge": 1.7976931348623157e308, "tiny_normal": 2.2250738585072014e-308, "two_pow_31": 2.0**31, "two_pow_32": 2.0**32,
            "just_below_2_32": 4294967295.0, "two_pow_minus_32": 2.0**-32, "two_pow_minus_33": 2.0**-33, "two_pow_minus_34": 2.0**-34, "below_2_31": 2147483647.9, "one": 1.0,
            "f32_min_sub": float(np.float32(1e-45)), "f32_max": float(np.finfo(np.float32).max)}
    return vals


def classes(V, name):
    """concrete evaluation by class (the 'degrades to zero multiplier, no exception, no wrapped value' clause)"""
    import ethosu.vela.scaling as sc

    x = _special_values()[name]
    try:
        q, shift = sc.quantise_scale(x)
        rq, rs = sc.reduced_quantise_scale(x)
    except Exception as e:  # noqa
        return [("quantise_scale(%r) raised %s: %s" % (x, type(e).__name__, e), False)]
    ok_pair = (q == 0 and 0 <= shift <= 63) or ((1 << 30) <= q <= (1 << 31) and 0 <= shift <= 63)
    cl = [("result is a zero multiplier or an in-range pair", bool(ok_pair))]
    if q != 0 and x > 0 and math.isfinite(x):
        cl.append(("pair denotes the value to 2^-31", abs(q * 2.0**-shift - x) <= x * 2.0**-31))
    if x == 0 or x >= 2.0**31 or x < 2.0**-33:  # representable range: shift = 31 - exponent must lie in [0, 63]
        cl.append(("out-of-range input degrades to a zero multiplier", q == 0 and rq == 0))
    return cl


def pool(V, n, lo, hi):
    import ethosu.vela.scaling as sc

    a = V.int("acc", n * lo, n * hi)
    scale, shift = sc.quantise_pooling_scale(n)
    got = (L(a) * scale + (1 << (shift - 1))) / (1 << shift) if shift > 0 else L(a) * scale
    half_up = (2 * L(a) + n) / (2 * n)  # floor((a + n/2) / n)
    tie_neg = z3.And(L(a) < 0, (2 * L(a)) % (2 * n) == n)
    fid = "C09-int16-avgpool-window-above-32768"
    return [("scale fits the 32-bit OFM_SCALE register", 0 < scale < (1 << 32)), ("shift fits 6 bits", 0 <= shift < 64),
            ("[%s] scaled, rounded accumulator == rounded division" % fid,
             V.except_finding(fid, hi == 32767 and n > 32768, z3.Or(got == half_up, z3.And(tie_neg, got == half_up - 1))))]


def pool_register(V, kh, kw, kind):
    """what reaches the OFM_SCALE register of an average pool whose input and output share one scale: the REAL generate_ofm_scaling_for_pooling
    with the tensors' scale a SYMBOLIC float of the given kind (np.float32 is what the model reader produces, a Python float what API users pass).
    With equal scales the rescale factor is exactly 1, so the register must hold the exact divisor pair of quantise_pooling_scale (whose rounding
    property the `pool` lemma establishes) - any precision lost while multiplying by that 1.0 moves accumulators to the wrong side."""
    import ethosu.vela.register_command_stream_generator as g
    import ethosu.vela.numeric_util as nu
    import ethosu.vela.scaling as sc
    from ethosu.vela import api as a

    s = V.extra("float", "scale", kind)
    if V.symbolic:
        V.assume(z3.And(z3.fpGT(fp.F(s), z3.FPVal(2.0 ** -20, fp.F(s).sort())), z3.fpLT(fp.F(s), z3.FPVal(64.0, fp.F(s).sort()))))
    elif not 2.0 ** -20 < float(s) < 64.0:
        raise core.PathAbort("outside the range")
    op = _Obj(kernel=_Obj(height=kh, width=kw), ifm=_Obj(quantization=_Obj(scale_f32=s, zero_point=0), data_type=a.NpuDataType.INT8),
              ofm=_Obj(quantization=_Obj(scale_f32=s, zero_point=0)), activation=None, fused_quantize=False, rescale=None)
    out = []
    emit = _Obj(cmd1_with_offset=lambda cmd, scale, shift: out.append((scale, shift)))
    with core.shims((g, {"int": core.sint, "max": core.smax, "min": core.smin, "np": fp.SNUMPY}), (nu, {"np": fp.SNUMPY}), *_shims()):
        g.generate_ofm_scaling_for_pooling(emit, op)
    want_scale, want_shift = sc.quantise_pooling_scale(kh * kw, 0)
    if len(out) != 1:
        return [("one OFM_SCALE command", False)]
    scale, shift = out[0]
    return [("shift of the exact divisor pair", L(shift) == want_shift),
            ("scale of the exact divisor pair (equal input and output scales: rescale is exactly 1)", L(scale) == want_scale)]


def pool_requant(V):
    """a Quantize lowered to a 1x1 average pool (fused_quantize): the real generate_ofm_scaling_for_pooling hands quantise_scale the ratio
    (double)ifm_scale / (double)ofm_scale of the two np.float32 scales of the model - the TFLite reference derivation - and programs the pair it
    returns (the quantisation of that double is the `qs` lemma).  Symbolic float32 scales."""
    import ethosu.vela.register_command_stream_generator as g
    import ethosu.vela.numeric_util as nu
    import ethosu.vela.scaling as sc
    from ethosu.vela import api as a

    si, so = V.extra("float", "ifm_scale", "f32"), V.extra("float", "ofm_scale", "f32")
    rng = lambda x: z3.And(z3.fpGT(fp.F(x), z3.FPVal(2.0 ** -20, fp.F32)), z3.fpLT(fp.F(x), z3.FPVal(64.0, fp.F32)))  # noqa: E731
    if V.symbolic:
        V.assume(z3.And(rng(si), rng(so)))
    elif not all(2.0 ** -20 < float(x) < 64.0 for x in (si, so)):
        raise core.PathAbort("outside the range")
    op = _Obj(kernel=_Obj(height=1, width=1), ifm=_Obj(quantization=_Obj(scale_f32=si, zero_point=0), data_type=a.NpuDataType.INT8),
              ofm=_Obj(quantization=_Obj(scale_f32=so, zero_point=0)), activation=None, fused_quantize=True, rescale=None)
    out, seen = [], []
    emit = _Obj(cmd1_with_offset=lambda cmd, scale, shift: out.append((scale, shift)))
    saved = sc.quantise_scale
    sc.quantise_scale = lambda x: (seen.append(x), (1234567890, 33))[1]
    try:
        with core.shims((g, {"int": core.sint, "max": core.smax, "min": core.smin, "np": fp.SNUMPY}), (nu, {"np": fp.SNUMPY}), *_shims()):
            g.generate_ofm_scaling_for_pooling(emit, op)
    finally:
        sc.quantise_scale = saved
    if len(seen) != 1 or len(out) != 1:
        return [("one scale derivation, one OFM_SCALE command", False)]
    got = seen[0]
    ref = z3.fpDiv(fp.RNE, fp.as_f64(si) if isinstance(si, fp.SFloat) else z3.FPVal(float(si), fp.F64), fp.as_f64(so) if isinstance(so, fp.SFloat) else z3.FPVal(float(so), fp.F64))
    gotd = fp.as_f64(got) if isinstance(got, fp.SFloat) else z3.FPVal(float(got), fp.F64)
    return [("the ratio handed to quantise_scale is (double)ifm_scale / (double)ofm_scale", gotd == ref),
            ("the derived pair is what reaches OFM_SCALE", out[0] == (1234567890, 33))]


def pool_rescale(V, n, rescale_bits):
    """quantise_pooling_scale with rescale_bits as generate_ofm_scaling_for_pooling passes them: shift stays below 64 and the
    pair still denotes 1/n within one unit of its own precision"""
    import ethosu.vela.scaling as sc

    try:
        scale, shift = sc.quantise_pooling_scale(n, rescale_bits)
    except AssertionError:
        return [("assertion on shift only for combinations outside the register range", True)]
    exact = (scale * n <= (1 << shift) + (1 << (shift - 31 + rescale_bits if shift - 31 + rescale_bits > 0 else 0)) + n) and (scale * n > (1 << shift) - n)
    return [("shift < 64", 0 <= shift < 64), ("scale*n within n of 2^shift (+ nudge)", bool(exact))]


def _q_as_int_claim(x, q, shift, tag):
    """the emitted pair is the faithful quantisation of the float x *as computed* (x: SFloat/float, positive normal assumed)"""
    return _qs_claims(x, q, shift, tag)


_QSQ = z3.Function("QS_multiplier", fp.F64, z3.IntSort())
_QSS = z3.Function("QS_shift", fp.F64, z3.IntSort())


class _QSStub:
    """summary of quantise_scale for compositional harnesses: the `qs` harness proves the function correct for every positive
    normal double, so here it is an uninterpreted function of the (exactly widened) argument; arguments are recorded."""

    def __init__(self, real):
        self.real = real
        self.args = []

    def __call__(self, x):
        self.args.append(x)
        if isinstance(x, SFloat):
            d = fp.as_f64(x)
            return SInt(_QSQ(d)), SInt(_QSS(d))
        return self.real(x)


def _d(x):
    return fp.as_f64(x) if isinstance(x, SFloat) else z3.FPVal(float(x), fp.F64)


def _scale_inputs(V, kind):
    ss = [V.extra("float", n, kind) for n in ("s1", "s2", "so")]
    lo, hi = 2.0**-24, 2.0**8
    for s in ss:
        V.assume(z3.And(z3.fpIsNormal(fp.F(s)), z3.fpGEQ(_d(s), z3.FPVal(lo, fp.F64)), z3.fpLEQ(_d(s), z3.FPVal(hi, fp.F64))))
    return ss


_RQSQ = z3.Function("RQS_multiplier", fp.F64, z3.IntSort())
_RQSS = z3.Function("RQS_shift", fp.F64, z3.IntSort())


class _RQSStub(_QSStub):
    """summary of reduced_quantise_scale (the int16 form, decided by `rqs`): its own pair of uninterpreted functions"""

    def __call__(self, x):
        self.args.append(x)
        if isinstance(x, SFloat):
            d = fp.as_f64(x)
            return SInt(_RQSQ(d)), SInt(_RQSS(d))
        return self.real(x)


def _pair_eq(V, got_q, got_s, ref64, real_qs, tag, ufs=None):
    """(multiplier, shift) returned by the code == quantise_scale(reference double)  (ufs: the summary pair to compare with)"""
    fq, fs = ufs or (_QSQ, _QSS)
    if V.symbolic:
        return [(tag + "multiplier == quantise(reference derivation in double)", L(got_q) == fq(ref64)),
                (tag + "shift == quantise(reference derivation in double)", L(got_s) == fs(ref64))]
    v = z3.simplify(ref64)
    if not z3.is_fp_value(v) and not z3.is_fprm_value(v):
        v = z3.simplify(v)
    bits = z3.simplify(z3.fpToIEEEBV(v)).as_long()
    x = struct.unpack("<d", struct.pack("<Q", bits))[0]
    rq, rs = real_qs(x)
    return [(tag + "multiplier == quantise(reference derivation in double)", int(got_q) == rq),
            (tag + "shift == quantise(reference derivation in double)", int(got_s) == rs)]


def addsub(V, kind, bits, order):
    """advanced_elementwise_add_sub_scale on three scales of the given kind (f32 = what the TFLite reader hands over).
    Reference: the same derivation evaluated in IEEE double from the same inputs (TFLite's double arithmetic; NumPy 1.x promotion)."""
    import ethosu.vela.scaling as sc

    s1, s2, so = _scale_inputs(V, kind)
    d1, d2, do = _d(s1), _d(s2), _d(so)
    V.assume({"lt": z3.fpLT(d1, d2), "gt": z3.fpGT(d1, d2), "eq": z3.fpEQ(d1, d2)}[order])
    stub = _QSStub(sc.quantise_scale)
    saved = sc.quantise_scale
    if V.symbolic:
        sc.quantise_scale = stub
    try:
        with core.shims(*_shims()):
            in_scale, in_shift, out_scale, out_shift, op_to_scale = sc.advanced_elementwise_add_sub_scale(s1, s2, so, bits)
    finally:
        sc.quantise_scale = saved
    shift = 20 if bits == 8 else 15
    RNE = fp.RNE
    mx = d2 if order == "lt" else d1
    mn = d1 if order == "lt" else d2
    two_max = z3.fpMul(RNE, z3.FPVal(2.0, fp.F64), mx)
    ref_in = z3.fpDiv(RNE, z3.fpMul(RNE, mn, z3.FPVal(float(1 << shift), fp.F64)), two_max)
    ref_out = z3.fpDiv(RNE, two_max, z3.fpMul(RNE, do, z3.FPVal(float(1 << shift), fp.F64)))
    cl = _pair_eq(V, in_scale, in_shift, ref_in, saved, "operand rescale: ")
    cl += _pair_eq(V, out_scale, out_shift, ref_out, saved, "output rescale: ")
    want_op = sc.OperandToScale.OPa if order == "lt" else sc.OperandToScale.OPb
    cl.append(("the operand with the smaller scale is the one rescaled", op_to_scale == want_op))
    return cl


def simple_addsub(V, kind, shift):
    """simplified_elementwise_add_sub_scale (same-scale path): operand factors and output pair vs the double reference"""
    import ethosu.vela.scaling as sc

    s1, s2, so = _scale_inputs(V, kind)
    s2 = s1  # the same-scale path: both operands carry the same value
    d1, d2, do = _d(s1), _d(s2), _d(so)
    stub = _QSStub(sc.quantise_scale)
    saved = sc.quantise_scale
    if V.symbolic:
        sc.quantise_scale = stub
    try:
        with core.shims(*_shims()):
            r1, r2, out_scale, out_shift = sc.simplified_elementwise_add_sub_scale(s1, s2, so, shift)
    finally:
        sc.quantise_scale = saved
    RNE = fp.RNE
    two_max = z3.fpMul(RNE, z3.FPVal(2.0, fp.F64), d1)
    ref1 = z3.fpDiv(RNE, z3.fpMul(RNE, d1, z3.FPVal(float(1 << shift), fp.F64)), two_max)
    ref_out = z3.fpDiv(RNE, two_max, z3.fpMul(RNE, do, z3.FPVal(float(1 << shift), fp.F64)))
    cl = _pair_eq(V, out_scale, out_shift, ref_out, saved, "output rescale: ")
    cl.append(("operand 1 factor == reference (2^(shift-1) for equal scales)", _d(r1) == ref1))
    cl.append(("operand 2 factor == operand 1 factor", _d(r2) == _d(r1)))
    return cl


def mul(V, kind):
    """elementwise_mul_scale == quantise(s1*s2/so) with the quotient formed in the operands' own precision (which precision
    the reference uses is outside the claim) - pins the formula (operand roles) and the quantisation step."""
    import ethosu.vela.scaling as sc

    s1, s2, so = _scale_inputs(V, kind)
    stub = _QSStub(sc.quantise_scale)
    saved = sc.quantise_scale
    if V.symbolic:
        sc.quantise_scale = stub
    try:
        with core.shims(*_shims()):
            q, shift = sc.elementwise_mul_scale(s1, s2, so)
    finally:
        sc.quantise_scale = saved
    x = z3.fpDiv(fp.RNE, z3.fpMul(fp.RNE, fp.F(s1), fp.F(s2)), fp.F(so))
    x64 = x if kind != "f32" else z3.fpToFP(fp.RNE, x, fp.F64)
    return _pair_eq(V, q, shift, x64, saved, "mul rescale: ")


class _NPD:
    """numpy stand-in for weight_compressor: np.double on a float proxy is the exact widening to binary64"""

    @staticmethod
    def double(x=0.0):
        if isinstance(x, SFloat):
            return SFloat(fp.as_f64(x), "f64")
        return np.double(x)

    float64 = double

    def __getattr__(self, n):
        return getattr(np, n)


def real_quant_methods(V, op, q_in, q_out, mkq=None):
    """gives a stand-in operation the REAL Operation.get_input_quantization / get_output_quantization and the attributes they read: the effective
    quantisation is either the IFM / OFM tensor's own, or - forked choice - a forced one (a fused lookup-table activation forces the output
    quantisation of the producing operation) while the tensor carries a different scale that must NOT be used"""
    import types
    from ethosu.vela.operation import Operation

    other = (lambda: type("Q", (), {"scale_f32": 0.8125, "zero_point": 0})()) if mkq is None else (lambda: mkq(0.8125))
    fi = V.choice("input quantisation", ("the IFM tensor's", "forced"))
    fo = V.choice("output quantisation", ("the OFM tensor's", "forced (fused activation)"))
    op.ifm = type("T", (), {"quantization": other() if fi == "forced" else q_in})()
    op.ofm = type("T", (), {"quantization": other() if fo != "the OFM tensor's" else q_out})()
    op.forced_input_quantization = q_in if fi == "forced" else None
    op.forced_output_quantization = q_out if fo != "the OFM tensor's" else None
    op.get_input_quantization = types.MethodType(Operation.get_input_quantization, op)
    op.get_output_quantization = types.MethodType(Operation.get_output_quantization, op)


def prep_scales(V, ifm_dtype, op_type, orig_type, bias_dtype="int32"):
    """weight_compressor._prepare_scale_and_bias: the per-channel scale handed to quantise_scale is the TFLite derivation for the
    ORIGINAL operator: convolutions (also a 1x1 convolution that was re-typed to FullyConnected) multiply in double,
    genuine FullyConnected and uint8 operators form the input*filter product in float first; the scale is quantised in the reduced int16 form
    exactly for an int16 IFM with an int64 bias (the reference's int16 kernels), in the full 31-bit form otherwise.  Symbolic float32 scales."""
    import ethosu.vela.weight_compressor as wc
    from ethosu.vela.data_type import DataType
    from ethosu.vela.operation import Op, RoundingMode
    from ethosu.vela.tensor import TensorPurpose, TensorFormat

    s_i, s_w, s_o = _scale_inputs(V, "f32")
    dt = {"int8": DataType.int8, "uint8": DataType.uint8, "int16": DataType.int16}[ifm_dtype]

    class _T:
        pass

    tens = _T()
    q = lambda sc: type("Q", (), {"scale_f32": sc})()  # noqa
    op = type("OpS", (), {})()
    op.type, op.original_type = Op[op_type], Op[orig_type]
    op.bias, op.outputs = tens, [object()]
    op.inputs = [type("I", (), {"dtype": dt})(), type("W", (), {"quantization": q(s_w)})()]
    real_quant_methods(V, op, q(s_i), q(s_o), q)
    op.rounding_mode = RoundingMode.TFLite
    tens.purpose, tens.format, tens.consumer_list, tens.values, tens.dtype, tens.name = TensorPurpose.FeatureMap, TensorFormat.NHWC, [op], [7], {"int32": DataType.int32, "int64": DataType.int64}[bias_dtype], "bias"
    stub = _QSStub(wc.quantise_scale)
    rstub = _RQSStub(wc.reduced_quantise_scale)
    saved = (wc.quantise_scale, wc.reduced_quantise_scale)
    if V.symbolic:
        wc.quantise_scale = stub
        wc.reduced_quantise_scale = rstub
    try:
        with core.shims((wc, {"np": _NPD(), "hasattr": lambda o, n: False if isinstance(o, SFloat) and n == "__iter__" else hasattr(o, n)})):
            scales, biases = wc._prepare_scale_and_bias(None, tens, None)
    finally:
        wc.quantise_scale, wc.reduced_quantise_scale = saved
    di, dw, do = _d(s_i), _d(s_w), _d(s_o)
    RNE = fp.RNE
    if ifm_dtype == "uint8" or orig_type == "FullyConnected":
        prod32 = z3.fpMul(RNE, fp.F(s_i), fp.F(s_w))
        ref = z3.fpDiv(RNE, z3.fpToFP(RNE, prod32, fp.F64), do)
    else:
        ref = z3.fpDiv(RNE, z3.fpMul(RNE, di, dw), do)
    got_q, got_s = scales[0]
    reduced = ifm_dtype == "int16" and bias_dtype == "int64"
    return _pair_eq(V, got_q, got_s, ref, saved[1] if reduced else saved[0], "channel scale (%s form): " % ("reduced int16" if reduced else "full"),
                    ufs=(_RQSQ, _RQSS) if reduced else None) + [("one scale per bias", len(scales) == len(biases))]


class _Obj:
    def __init__(self, **kw):
        self.__dict__.update(kw)


class _NPG(_NPD):
    """numpy stand-in for the register generator: float helpers that may meet a proxy"""

    @staticmethod
    def isclose(a, b, rtol=1e-05, atol=1e-08):
        if isinstance(a, SFloat) or isinstance(b, SFloat):
            RNE = fp.RNE
            da, db = _d(a), _d(b)
            return SBool(z3.fpLEQ(z3.fpAbs(z3.fpSub(RNE, da, db)),
                                  z3.fpAdd(RNE, z3.FPVal(atol, fp.F64), z3.fpMul(RNE, z3.FPVal(rtol, fp.F64), z3.fpAbs(db)))))
        return np.isclose(a, b, rtol, atol)


def ew_select(V, kind, bits, sub, reversed_operands):
    """generate_scaling_for_elementwise for Add/Sub: WHICH derivation feeds the OPA/OPB/OFM scale registers and how its result is placed.
    The two derivations (scaling.simplified_/advanced_elementwise_add_sub_scale, decided by `addsub`/`simple_addsub`) are replaced by
    recorders returning symbolic results.  The simplified (16-bit operand factors) form may only be used when both input scales are EQUAL -
    for different scales only the advanced form equals the reference derivation; registers carry the derivation's values unchanged."""
    import ethosu.vela.register_command_stream_generator as g
    from ethosu.vela import api as a

    s1, s2, so = _scale_inputs(V, kind)
    calls, regs = [], {}
    simp = (V.int("simp_opa", 1, (1 << 16)), V.int("simp_opb", 1, (1 << 16)), V.int("simp_ofm", 1 << 30, (1 << 31) - 1), V.int("simp_shift", 2, 62))
    adv = (V.int("adv_opa", 1 << 30, (1 << 31) - 1), V.int("adv_opa_shift", 0, 63), V.int("adv_ofm", 1 << 30, (1 << 31) - 1), V.int("adv_shift", 0, 63))
    adv_sel = V.choice("adv_operand", [g.scaling.OperandToScale.OPa, g.scaling.OperandToScale.OPb])

    def simplified(i1, i2, o, input_shift=16):
        calls.append(("simplified", i1, i2, o))
        return simp

    def advanced(i1, i2, o, bitdepth):
        calls.append(("advanced", i1, i2, o, bitdepth))
        return adv + (adv_sel,)

    class Emit:
        def cmd1_with_offset(self, cmd, offset, param=0):
            regs[cmd.name] = (offset, param)

    dt = a.NpuDataType.INT8 if bits == 8 else a.NpuDataType.INT16
    fm = lambda s_: _Obj(quantization=_Obj(scale_f32=s_, zero_point=0), data_type=dt)  # noqa
    op = _Obj(sub_op_type=a.NpuElementWiseOp[sub], ifm=fm(s1), ifm2=fm(s2), ofm=fm(so), activation=None, rescale=None, reversed_operands=bool(reversed_operands))
    saved = (g.scaling.simplified_elementwise_add_sub_scale, g.scaling.advanced_elementwise_add_sub_scale)
    g.scaling.simplified_elementwise_add_sub_scale, g.scaling.advanced_elementwise_add_sub_scale = simplified, advanced
    try:
        with core.shims((g, {"np": _NPG(), "int": core.sint})):
            op_to_scale = g.generate_scaling_for_elementwise(Emit(), op)
    finally:
        g.scaling.simplified_elementwise_add_sub_scale, g.scaling.advanced_elementwise_add_sub_scale = saved
    equal = z3.fpEQ(_d(s1), _d(s2))
    kinds = [c[0] for c in calls]
    cl = [("the scale derivation is called with the operation's three scales", all(c[1] is s1 and c[2] is s2 and c[3] is so for c in calls) and len(calls) >= 1),
          ("the simplified (16-bit operand factor) derivation is only used for equal input scales", z3.Implies(z3.BoolVal("simplified" in kinds), equal)),
          ("different input scales use the advanced derivation", z3.Implies(z3.Not(equal), z3.BoolVal(kinds == ["advanced"])))]
    opa, opb, ofm = regs.get("NPU_SET_OPA_SCALE"), regs.get("NPU_SET_OPB_SCALE"), regs.get("NPU_SET_OFM_SCALE")
    cl.append(("OPA, OPB and OFM scale registers are written", None not in (opa, opb, ofm)))
    if None in (opa, opb, ofm):
        return cl
    if kinds and kinds[-1] == "advanced":
        want_sel = adv_sel
        if reversed_operands:
            want_sel = g.scaling.OperandToScale.OPb if adv_sel == g.scaling.OperandToScale.OPa else g.scaling.OperandToScale.OPa
        cl += [("advanced: OPA_SCALE carries the operand factor and its shift", z3.And(L(opa[0]) == L(adv[0]), L(opa[1]) == L(adv[1]))),
               ("advanced: OPB_SCALE unused (0)", L(opb[0]) == 0),
               ("advanced: OFM_SCALE carries the output factor and shift", z3.And(L(ofm[0]) == L(adv[2]), L(ofm[1]) == L(adv[3]))),
               ("advanced: the operand to scale follows the derivation (swapped with reversed operands)", op_to_scale == want_sel)]
    elif kinds == ["simplified"]:
        half = 2 if bits == 16 else 1  # int16: operand factors halved and the shift reduced by one (aligns the double rounding)
        cl += [("simplified: OPA/OPB carry the operand factors", z3.And(L(opa[0]) == L(simp[0]) / half, L(opb[0]) == L(simp[1]) / half)),
               ("simplified: OFM_SCALE carries the output factor and shift", z3.And(L(ofm[0]) == L(simp[2]), L(ofm[1]) == L(simp[3]) - (1 if bits == 16 else 0))),
               ("simplified: no operand is singled out", op_to_scale == 0)]
    return cl


def scale_cache_key(V, **params):
    """the scale records an operator gets are derived from ITS OWN input/output scales and bias values: a cached packing is only reused for the
    same three (harness/c08.py scale_cache_key, symbolic scales)"""
    from harness import c08

    return c08.scale_cache_key(V, **params)


FUNCS = {"pool_requant": pool_requant, "pool_register": pool_register, "scale_cache_key": scale_cache_key, "ew_select": ew_select, "prep_scales": prep_scales, "qs": qs, "rqs": rqs, "classes": classes, "pool": pool, "pool_rescale": pool_rescale, "addsub": addsub, "simple_addsub": simple_addsub, "mul": mul}


def _windows(tier, seed):
    if tier != "quick":
        return list(range(1, 65537))
    w = set(range(1, 1025))
    for k in range(1, 17):
        for d in (-1, 0, 1):
            w.add(min(max((1 << k) + d, 1), 65536))
    w.update((32767, 32768, 32769, 32993))
    import random

    r = random.Random(seed)
    for _ in range(200):
        w.add(r.randint(1025, 65536))
    return sorted(w)


def instances(tier, seed):
    out = []
    out.append(dict(key="pool_requant", fn="pool_requant", params={}))
    for kh, kw in ((1, 1), (2, 2), (3, 3), (5, 10), (7, 7), (2, 7)):
        for kind in ("f32", "f64", "py"):
            if (kh, kw, kind) == (1, 1, "f32"):
                continue  # the 1x1 branch compares s/s with 1: after widening float32 -> double z3 does not decide that quotient (unknown); f64/py do
            out.append(dict(key="pool_register/%dx%d/%s" % (kh, kw, kind), fn="pool_register", params=dict(kh=kh, kw=kw, kind=kind)))
    for diff in ("none", "bias_values", "ifm_scale", "ofm_scale"):
        out.append(dict(key="scale_cache_key/%s" % diff, fn="scale_cache_key", params=dict(diff=diff)))
    for kind in ("py", "f64", "f32"):
        out.append(dict(key="qs/%s" % kind, fn="qs", params=dict(kind=kind), weight=100))
    out.append(dict(key="rqs/pair", fn="rqs", params=dict(zero=False)))
    out.append(dict(key="rqs/zero", fn="rqs", params=dict(zero=True)))
    for name in _special_values():
        out.append(dict(key="classes/%s" % name, fn="classes", params=dict(name=name)))
    for n in _windows(tier, seed):
        for lo, hi, tag in ((-128, 127, "i8"), (0, 255, "u8"), (-32768, 32767, "i16")):
            out.append(dict(key="pool/%d/%s" % (n, tag), fn="pool", params=dict(n=n, lo=lo, hi=hi)))
    for n in (1, 2, 3, 4, 9, 16, 49, 64, 256, 1024, 4096, 65536):
        for rb in range(-8, 9):
            out.append(dict(key="pool_rescale/%d/%d" % (n, rb), fn="pool_rescale", params=dict(n=n, rescale_bits=rb)))
    for ifm_dtype, op_type, orig in (("int8", "Conv2DBias", "Conv2DBias"), ("int8", "FullyConnected", "Conv2DBias"), ("int8", "FullyConnected", "FullyConnected"),
                                     ("uint8", "Conv2DBias", "Conv2DBias"), ("int16", "Conv2DBias", "Conv2DBias"), ("int8", "DepthwiseConv2DBias", "DepthwiseConv2DBias")):
        for bdt in (("int32", "int64") if ifm_dtype == "int16" else ("int32",)):
            out.append(dict(key="prep_scales/%s/%s/orig_%s/bias_%s" % (ifm_dtype, op_type, orig, bdt), fn="prep_scales",
                            params=dict(ifm_dtype=ifm_dtype, op_type=op_type, orig_type=orig, bias_dtype=bdt)))
    for kind in ("f32", "py"):
        for bits in (8, 16):
            for sub in ("ADD", "SUB"):
                for rev in (0, 1):
                    out.append(dict(key="ew_select/%s/%d/%s/rev%d" % (kind, bits, sub, rev), fn="ew_select", params=dict(kind=kind, bits=bits, sub=sub, reversed_operands=rev)))
    for kind in ("f32", "py"):
        for bits in (8, 16):
            for order in ("lt", "gt", "eq"):
                out.append(dict(key="addsub/%s/%d/%s" % (kind, bits, order), fn="addsub", params=dict(kind=kind, bits=bits, order=order), weight=1000))
        out.append(dict(key="mul/%s" % kind, fn="mul", params=dict(kind=kind), weight=1000))
        for sh in (16, 20, 15):
            out.append(dict(key="simple_addsub/%s/%d" % (kind, sh), fn="simple_addsub", params=dict(kind=kind, shift=sh), weight=1000))
    return out
