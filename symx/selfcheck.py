"""Differential validation of the proxy semantics against CPython / the installed NumPy (translator validation).

python -m symx.selfcheck  -> exit 0 and a JSON summary on stdout; exit 3 on any mismatch.
Every proxy operation is evaluated on concrete corner and pseudo-random values (as constant z3 terms, simplified by z3)
and compared with the native result: value, result dtype, and exception class.
"""
import itertools
import json
import math
import random
import struct
import sys
import warnings

import numpy as np
import z3

from . import core, fp, npint
from .core import SInt
from .npint import SNp

warnings.simplefilter("ignore")
FAIL = []
COUNT = {"sint": 0, "snp": 0, "sfloat": 0, "struct": 0, "absint": 0}


def _val(e):
    v = z3.simplify(e)
    if z3.is_int_value(v):
        return v.as_long()
    if z3.is_true(v) or z3.is_false(v):
        return z3.is_true(v)
    raise AssertionError("not ground: %s" % v)


def check_sint():
    vals = [0, 1, -1, 2, -2, 3, -3, 7, -7, 16, -16, 255, -256, 65535, 2**31 - 1, -2**31, 2**40 + 5, -(2**40) - 5]
    ops = {
        "add": lambda a, b: a + b, "sub": lambda a, b: a - b, "mul": lambda a, b: a * b,
        "floordiv": lambda a, b: a // b, "mod": lambda a, b: a % b, "and": lambda a, b: a & b, "or": lambda a, b: a | b,
        "xor": lambda a, b: a ^ b, "lt": lambda a, b: a < b, "le": lambda a, b: a <= b, "eq": lambda a, b: a == b, "ne": lambda a, b: a != b,
    }
    for (n, f), a, b in itertools.product(ops.items(), vals, vals):
        if n in ("floordiv", "mod") and b == 0:
            continue
        if n in ("and", "or", "xor") and (abs(a) >= 2**62 or abs(b) >= 2**62):
            continue
        want = f(a, b)
        for sa, sb in ((SInt(z3.IntVal(a)), b), (a, SInt(z3.IntVal(b))), (SInt(z3.IntVal(a)), SInt(z3.IntVal(b)))):
            got = f(sa, sb)
            g = _val(got.e)
            COUNT["sint"] += 1
            if g != want:
                FAIL.append(("sint", n, a, b, g, want))
    for a in vals:
        for k in (0, 1, 5, 16, 31):
            COUNT["sint"] += 2
            if _val((SInt(z3.IntVal(a)) << k).e) != a << k or _val((SInt(z3.IntVal(a)) >> k).e) != a >> k:
                FAIL.append(("sint", "shift", a, k))
        for m in (0xFF, 0xFFFF, 0x00FF0000, 0x3FF, 0xC000, 0xF0F0):
            COUNT["sint"] += 1
            if _val((SInt(z3.IntVal(a)) & m).e) != a & m:
                FAIL.append(("sint", "mask", a, m))
    # bit-field tracking: OR of disjoint fields
    for a, b in ((0x12, 0x3400), (5, 7 << 16), (0xABCD, 0x10000)):
        x = (SInt(z3.IntVal(a)) & 0xFFFF) | ((SInt(z3.IntVal(b >> 8)) & 0xFFFF) << 8) if False else (SInt(z3.IntVal(a)) & 0xFFFF) | (SInt(z3.IntVal(b)) & 0xFFFF0000)
        COUNT["sint"] += 1
        if _val(x.e) != (a & 0xFFFF) | (b & 0xFFFF0000):
            FAIL.append(("sint", "fields", a, b))


def _mk(dt, v):
    ii = np.iinfo(dt)
    return SNp(z3.BitVecVal(int(v), ii.bits), ii.bits, ii.min < 0)


def _npres(x):
    if isinstance(x, SNp):
        v = z3.simplify(x.bv)
        return (str(x.dtype), v.as_signed_long() if x.signed else v.as_long())
    if isinstance(x, core.SBool):
        return ("bool", _val(x.e))
    if isinstance(x, SInt):
        return ("pyint", _val(x.e))
    if isinstance(x, np.generic):
        return (str(x.dtype), int(x) if x.dtype != bool else bool(x))
    if isinstance(x, bool):
        return ("bool", x)
    return ("pyint", int(x))


def check_snp():
    dts = [np.int8, np.int16, np.int32, np.int64, np.uint8, np.uint16]
    ops = {
        "add": lambda a, b: a + b, "sub": lambda a, b: a - b, "mul": lambda a, b: a * b, "floordiv": lambda a, b: a // b,
        "mod": lambda a, b: a % b, "and": lambda a, b: a & b, "lt": lambda a, b: a < b, "ge": lambda a, b: a >= b, "eq": lambda a, b: a == b,
    }
    r = random.Random(7)

    def corner(dt):
        ii = np.iinfo(dt)
        return [ii.min, ii.max, 0, 1, ii.max // 2 + 1] + ([-1, ii.min + 1] if ii.min < 0 else [2]) + [r.randint(ii.min, ii.max) for _ in range(3)]

    def run(f, a, b):
        try:
            return _npres(f(a, b))
        except OverflowError:
            return ("OverflowError",)
        except ZeroDivisionError:
            return ("ZeroDivisionError",)

    for (n, f), da, db in itertools.product(ops.items(), dts, dts):
        for va, vb in itertools.product(corner(da), corner(db)):
            if n in ("floordiv", "mod") and vb == 0:
                continue
            COUNT["snp"] += 1
            want = run(f, da(va), db(vb))
            got = run(f, _mk(da, va), _mk(db, vb))
            if got != want:
                FAIL.append(("snp", n, str(np.dtype(da)), va, str(np.dtype(db)), vb, got, want))
    pyvals = [0, 1, -1, 8, 127, 128, -128, -129, 255, 256, 32767, 32768, 2**31 - 1, 2**31, -(2**31), 2**62]
    for (n, f), da in itertools.product(ops.items(), dts):
        for va, pv in itertools.product(corner(da), pyvals):
            if n in ("floordiv", "mod") and pv == 0:
                continue
            for rev in (False, True):
                g = (lambda a, b: f(b, a)) if rev else f
                if rev and n in ("floordiv", "mod") and va == 0:
                    continue
                COUNT["snp"] += 2
                want = run(g, da(va), pv)
                got = run(g, _mk(da, va), pv)
                got2 = run(g, _mk(da, va), SInt(z3.IntVal(pv)))
                if got != want or got2 != want:
                    FAIL.append(("snp-py", n, rev, str(np.dtype(da)), va, pv, got, got2, want))
    # shifts, casts, neg, abs, int()
    for da in dts:
        for va in corner(da):
            for k in (0, 1, 3, 7):
                COUNT["snp"] += 2
                if run(lambda a, b: a << b, _mk(da, va), k) != run(lambda a, b: a << b, da(va), k):
                    FAIL.append(("snp", "lshift", str(np.dtype(da)), va, k))
                if run(lambda a, b: a >> b, _mk(da, va), k) != run(lambda a, b: a >> b, da(va), k):
                    FAIL.append(("snp", "rshift", str(np.dtype(da)), va, k))
            for dto in dts:
                COUNT["snp"] += 1
                want = _npres(dto(da(va))) if True else None
                got = _npres(npint.cast(dto)(_mk(da, va)))
                if got != want:
                    FAIL.append(("snp", "cast", str(np.dtype(da)), va, str(np.dtype(dto)), got, want))
            COUNT["snp"] += 2
            if _npres(-_mk(da, va)) != _npres(-da(va)) or _npres(abs(_mk(da, va))) != _npres(abs(da(va))):
                FAIL.append(("snp", "neg/abs", str(np.dtype(da)), va))
    # constructors from python ints
    for dto in dts:
        for pv in pyvals:
            COUNT["snp"] += 1
            try:
                want = _npres(dto(pv))
            except OverflowError:
                want = ("OverflowError",)
            try:
                got = _npres(npint.cast(dto)(SInt(z3.IntVal(pv))))
            except OverflowError:
                got = ("OverflowError",)
            if got != want:
                FAIL.append(("snp", "ctor", str(np.dtype(dto)), pv, got, want))


def _fbits(x, kind):
    if kind == "f32":
        return struct.unpack("<I", struct.pack("<f", x))[0]
    return struct.unpack("<Q", struct.pack("<d", x))[0]


def check_sfloat():
    r = random.Random(11)
    f64s = [1.0, 0.5, 0.001, 3.0, 1e-7, 123456.789, 2.0**-20, 1 + 2.0**-31, 0.1, 7.5e-3] + [r.uniform(1e-6, 10) for _ in range(6)]
    ops = {"add": lambda a, b: a + b, "sub": lambda a, b: a - b, "mul": lambda a, b: a * b, "div": lambda a, b: a / b}
    kinds = {"py": float, "f64": np.float64, "f32": np.float32}

    def mk(k, v):
        srt = fp.F32 if k == "f32" else fp.F64
        return fp.SFloat(z3.FPVal(float(kinds[k](v)), srt), k)

    def res(x):
        if isinstance(x, fp.SFloat):
            b = z3.simplify(z3.fpToIEEEBV(x.e)).as_long()
            return ("f32" if x.e.sort() == fp.F32 else "f64", b)
        if isinstance(x, np.float32):
            return ("f32", _fbits(float(x), "f32"))
        return ("f64", _fbits(float(x), "f64"))

    for (n, f), ka, kb in itertools.product(ops.items(), kinds, kinds):
        for a, b in itertools.product(f64s[:8], f64s[4:12]):
            COUNT["sfloat"] += 1
            want = res(f(kinds[ka](a), kinds[kb](b)))
            got = res(f(mk(ka, a), mk(kb, b)))
            if got != want:
                FAIL.append(("sfloat", n, ka, a, kb, b, got, want))
    for (n, f), ka in itertools.product(ops.items(), kinds):
        for a, c in itertools.product(f64s[:8], [2, 1 << 20, 1 << 31, 0.5, 3]):
            for rev in (False, True):
                g = (lambda x, y: f(y, x)) if rev else f
                COUNT["sfloat"] += 1
                want = res(g(kinds[ka](a), c))
                got = res(g(mk(ka, a), c))
                if got != want:
                    FAIL.append(("sfloat-scalar", n, rev, ka, a, c, got, want))
    for k in kinds:
        for a in f64s:
            COUNT["sfloat"] += 3
            x = kinds[k](a)
            sig, e = fp.frexp(mk(k, a))
            ws, we = math.frexp(x)
            if res(sig) != res(ws) or _val(e.e) != we:
                FAIL.append(("sfloat", "frexp", k, a))
            big = kinds[k](a) * (1 << 20)
            if _val(fp.SFloat.__sym_toint__(mk(k, a) * (1 << 20)).e) != int(big):
                FAIL.append(("sfloat", "int", k, a))
            if _val(round(mk(k, a) * (1 << 10)).e) != round(float(kinds[k](a) * (1 << 10))):
                FAIL.append(("sfloat", "round", k, a))
        # NumPy's round-to-integral functions, incl. exact half-way values of both parities and negatives
        for a in f64s[:6] + [0.5, 1.5, 2.5, -0.5, -1.5, -2.5, 1073741824.5, 1073741825.5, -3.25, 7.75]:
            for nm in ("trunc", "round", "rint", "floor", "ceil"):
                COUNT["sfloat"] += 1
                want = res(getattr(np, nm)(kinds[k](a)))
                got = res(getattr(fp.SNUMPY, nm)(mk(k, a)))
                if got != want:
                    FAIL.append(("sfloat", "np." + nm, k, a, got, want))


def check_to_bytes():
    for v in (0, 1, 255, 256, 0x01020304, 0xFFFFFFFF, 0x100000000, -1, -129, 0x7FFFFFFFFF):
        for n in (1, 4, 5):
            for order in ("little", "big"):
                for signed in (False, True):
                    COUNT["snp"] += 1
                    try:
                        want = list(v.to_bytes(n, order, signed=signed))
                    except OverflowError:
                        want = "OverflowError"
                    try:
                        got = [int(z3.simplify(b.bv).as_signed_long()) for b in npint.SBig.of(v).to_bytes(n, order, signed=signed)]
                    except OverflowError:
                        got = "OverflowError"
                    if got != want:
                        FAIL.append(("sbig", "to_bytes", v, n, order, signed, got, want))


def check_srat():
    """exact rationals: floor / ceil / trunc / round (ties to even) of int/int quotients against CPython's Fraction arithmetic"""
    import math
    from fractions import Fraction

    from symx import rat

    for num in list(range(-9, 10)) + [32767, 32768, 98304, 163840, -98304, 1073741824 + 32768, 3 * 65536 + 32768]:
        for den in (1, 2, 4, 3, 65536):
            x = SInt(z3.IntVal(num)) / den
            if not isinstance(x, rat.SRat):
                continue
            fr = Fraction(num, den)
            for nm, got, want in (("floor", math.floor(x), math.floor(fr)), ("ceil", math.ceil(x), math.ceil(fr)), ("trunc", math.trunc(x), math.trunc(fr)),
                                  ("round", round(x), round(fr))):
                COUNT["srat"] = COUNT.get("srat", 0) + 1
                if _val(core.L(got)) != want:
                    FAIL.append(("srat", nm, num, den, _val(core.L(got)), want))


def check_struct():
    """the struct.pack('<nI') model of harness/c17.py against the real struct (both byte orders, out-of-range words)"""
    from harness import c17

    rnd = random.Random(5)
    for order in ("<", ">", "=", ""):
        for n in (0, 1, 2, 5):
            for _ in range(6):
                ws = [rnd.choice([0, 1, 0xFFFFFFFF, 0x80000000, 0x01020304, rnd.getrandbits(32)]) for _ in range(n)]
                fmt = "%s%dI" % (order, n)
                COUNT["struct"] += 1
                want = list(struct.unpack("<%dI" % n, struct.pack(fmt, *ws)))
                got = [_val(core.L(w)) for w in c17._words(c17._SStruct.pack(fmt, *ws))]
                if got != want:
                    FAIL.append(("struct", fmt, ws, got, want))
    for bad in (-1, 1 << 32):
        COUNT["struct"] += 1
        try:
            c17._SStruct.pack("<1I", bad)
            FAIL.append(("struct", "out of range accepted", bad))
        except struct.error:
            pass


def check_absint():
    """the interval / power-of-two abstract interpreter behind the bit-hull inference: evaluated bounds and divisibility must contain the value"""
    rnd = random.Random(7)
    x, y = z3.Int("x"), z3.Int("y")
    bounds = {"x": (0, 40), "y": (1, 3)}
    terms = [x * 64, (x - 1) / 2 * 64, (y - 1) % 2, ((y - 1) / 2) * 512, x * 4 + y * 16, z3.If(x > 3, x * 8, 16), x % 8 * 2, -x, x - y, (x + y) * 6, x / 4 * 4]
    for t in terms:
        lo, hi, tz = core._absint(t, bounds, {})
        for _ in range(40):
            vx, vy = rnd.randint(0, 40), rnd.randint(1, 3)
            v = _val(z3.substitute(t, (x, z3.IntVal(vx)), (y, z3.IntVal(vy))))
            COUNT["absint"] += 1
            if (lo is not None and v < lo) or (hi is not None and v > hi) or v % (1 << min(tz, 62)) != 0:
                FAIL.append(("absint", str(t), vx, vy, v, lo, hi, tz))


def main():
    check_struct()
    check_srat()
    check_to_bytes()
    check_absint()
    check_sint()
    check_snp()
    check_sfloat()
    out = {"evaluations": COUNT, "mismatches": len(FAIL), "examples": [list(map(str, f)) for f in FAIL[:10]]}
    print(json.dumps(out))
    return 3 if FAIL else 0


if __name__ == "__main__":
    sys.exit(main())
