"""C15 - every block configuration used or offered is valid for the hardware.

layout   : try_block_config on a symbolic block depth / IFM depth for enumerated block (h, w), kernels, strides, op kinds, bit depths,
           LUT use, upscaling, 6 accelerators: a returned configuration is a positive micro-block multiple within the maximum block and
           its SHRAM layout is ordered, inside the bank count and each partition double-buffers its block at its granule
           (independent restatement of the shared-buffer rules); an invalid block is rejected.
query    : the argument derivation of api.npu_find_block_configs vs register_command_stream_generator.get_arch_block_config for the
           same operation: whenever try_block_config accepts a block with the query's arguments it accepts it with the generator's.
search   : find_block_config's result re-validates through try_block_config with the arguments the generator will use.
"""
import z3

from symx import core, rat
from symx.core import SInt, SBool, L, B

EXPLANATION = "C15: SHRAM layout arithmetic of try_block_config against restated shared-buffer rules; query => generator acceptance."
SHIMS = ["architecture_allocator: min,max -> ite shims; int -> identity on proxies; math.ceil on exact rationals"]
ASSUMPTIONS = ["per-accelerator constants (micro-block, SHRAM banks, bank granules, reserved banks) restated from the Ethos-U configuration tables",
               "float expressions in the allocator are divisions of bounded integers by 8 / 1 / 2 (exact in binary64; obligations asserted)"]
OUTSIDE = ["agreement of the part-kernel/depth-first choice between the allocator and the weight encoder",
           "cost-based choice among fitting candidates in find_block_config (all candidates that can be chosen are valid by `layout`)"]
BOUNDS = {"layout": "block depth symbolic in micro-block multiples up to 128, IFM depth 1..4096, OFM shape symbolic <= 65536; block (h,w) from "
                    "{1,2,3,4,8,16,max} micro-block multiples; kernels {1x1,3x3,1x7,9x9,2x5(dilated)}; strides 1..3"}

# name: (ofm_ublock (w,h,d), ifm_ublock (w,h,d), shram banks, bank granules [ifm8, ifm16, ifm8_elementwise, ifm16_elementwise, ifm32, acc16, acc32, acc40])
HW = {
    "Ethos_U65_512": ((2, 2, 8), (2, 2, 8), 48, [8, 8, 8, 8, 16, 8, 16, 20]),
    "Ethos_U65_256": ((2, 2, 8), (2, 2, 8), 48, [8, 8, 8, 8, 16, 8, 16, 20]),
    "Ethos_U55_256": ((2, 2, 8), (2, 2, 8), 48, [8, 8, 8, 8, 16, 8, 16, 20]),
    "Ethos_U55_128": ((2, 1, 8), (2, 1, 8), 24, [4, 4, 4, 4, 8, 4, 8, 12]),
    "Ethos_U55_64": ((1, 1, 8), (1, 1, 8), 16, [2, 2, 2, 2, 4, 4, 4, 8]),
    "Ethos_U55_32": ((1, 1, 4), (1, 1, 8), 16, [2, 2, 2, 2, 4, 4, 4, 4]),
}
MAXBLK = (64, 32, 128)  # w, h, d
BANK = 1024


def ENCODED():
    import ethosu.vela.architecture_allocator as aa
    import ethosu.vela.api as api
    import ethosu.vela.register_command_stream_generator as g

    return [aa._try_block_config, aa.try_block_config, aa._get_ifm_blocksize, aa._required_size, aa._ifm_blockdepth, aa.fit_block_for_ofm,
            aa._acc_type, aa._ew_usage, aa.find_block_config, api.npu_find_block_configs, g.get_arch_block_config]


def _shims():
    import ethosu.vela.architecture_allocator as aa
    import ethosu.vela.numeric_util as nu

    return ((aa, {"min": core.smin, "max": core.smax, "int": core.sint, "math": rat.SMATH}),)


def _ru(x, m):
    return ((x + m - 1) / m) * m


def _cdiv(x, m):
    return (x + m - 1) / m


def layout(V, accel, kind, bits, bw, bh, kw, kh, dil, stride, lut, scalar, upscale, partk, scaled, stride_y=None):
    import ethosu.vela.architecture_allocator as aa
    from ethosu.vela.architecture_features import Block
    from ethosu.vela.operation import Kernel, NpuBlockType
    from ethosu.vela.ethos_u55_regs.ethos_u55_regs import resampling_mode
    from harness.c04 import arch_for

    arch = arch_for(accel)
    (uw, uh, ud), (iuw, iuh, iud), banks, gran = HW[accel]
    bd = V.int("block_depth", -8, 160)
    ifm_d = V.int("ifm_depth", 1, 4096)
    ofm_h = V.int("ofm_h", 1, 65536)
    ofm_w = V.int("ofm_w", 1, 65536)
    ofm_d = V.int("ofm_d", 1, 65536)
    bt = {"conv": NpuBlockType.ConvolutionMxN, "dw": NpuBlockType.ConvolutionDepthWise, "pool": NpuBlockType.Pooling,
          "rsum": NpuBlockType.ReduceSum, "ew": NpuBlockType.ElementWise}[kind]
    rs = {0: resampling_mode.NONE, 1: resampling_mode.NEAREST, 2: resampling_mode.TRANSPOSE}[upscale]
    sx, sy = stride, (stride if stride_y is None else stride_y)
    kernel = Kernel(kw, kh, sx, sy, dil, dil)
    # the IFM's own height and width are independent of the OFM's (upscaling, strides, valid padding): symbolic
    ifm_h = V.int("ifm_h", 1, 65536)
    ifm_w_ = V.int("ifm_w", 1, 65536)
    ifm_shape = Block(ifm_w_, ifm_h, ifm_d)
    ifm2_shape = Block(ifm_w_, ifm_h, ifm_d) if (kind == "ew" and not scalar) else None
    with core.shims(*_shims()):
        cfg = aa.try_block_config(Block(bw, bh, bd), arch, bt, Block(ofm_w, ofm_h, ofm_d), ifm_shape, ifm2_shape, bool(scalar), bits,
                                  bool(partk), kernel, 2 if lut else 0, bool(scaled), rs)
    obl = [("float expression exact", o) for o in rat.exactness_obligations()]
    valid_blk = z3.And(L(bd) > 0, L(bd) <= MAXBLK[2], L(bd) % ud == 0) if (0 < bw <= MAXBLK[0] and bw % uw == 0 and 0 < bh <= MAXBLK[1] and bh % uh == 0) else z3.BoolVal(False)
    if cfg is None:
        # rejection is always allowed for a block that does not fit; an invalid block MUST be rejected (checked on the other branch)
        return [("rejected", True)] + obl
    lay = cfg.layout
    total = banks - (2 if banks > 16 else 0)  # reserved unused banks at the end of the larger configurations
    reserved_end = 2 if banks > 16 else 0
    lut_start = total - max(2 if lut else 0, reserved_end) if False else banks - max(2 if lut else 0, reserved_end)
    cl = [("accepted block is a positive micro-block multiple within the maximum block", valid_blk),
          ("IB_START == reserved output banks", L(lay.ib_start) == 2),
          ("LUT region == last max(lut banks, reserved end banks) banks", L(lay.lut_start) == lut_start),
          ("partitions ordered: ib_start <= ib_end <= ab_start <= lut_start <= total banks",
           z3.And(L(lay.ib_start) <= L(lay.ib_end), L(lay.ib_end) <= L(lay.ab_start), L(lay.ab_start) <= L(lay.lut_start), L(lay.lut_start) <= banks))]
    # ---- required block sizes, restated from the shared-buffer rules
    nearest = 1 if upscale == 1 else 0
    ups = 1 if upscale == 0 else 2
    kaw, kah = (kw - 1) * dil + 1, (kh - 1) * dil + 1

    def req(v, s, border):
        n = (v - 1) * s + border + nearest
        return -((-n) // ups)  # ceil

    ifm_w = -(-req(bw, sx, min(kaw, 8)) // uw) * uw
    ifm_h = -(-req(bh, sy, min(kah, 8)) // uh) * uh
    equal_depth = kind in ("dw", "pool", "ew")
    if equal_depth:
        idepth = L(bd)
    elif bits == 16:
        m = z3.If(L(ifm_d) < 16, L(ifm_d), 16)
        idepth = _ru(m, 4)
    else:
        cap = 16 if partk else 32
        m = z3.If(L(ifm_d) < cap, L(ifm_d), cap)
        idepth = _ru(m, iud)
    ifm_bytes = ifm_w * ifm_h * _ru(idepth * bits / 8, 8)
    ew = kind == "ew"
    ifm_gran = gran[{8: 2, 16: 3, 32: 4}[bits]] if ew else gran[{8: 0, 16: 1, 32: 4}[bits]]
    ifm_need = _ru(_cdiv(ifm_bytes, BANK) * 2, ifm_gran)
    cl.append(("IFM block recorded in the configuration == required input block",
               z3.And(L(cfg.ifm_block.width) == ifm_w, L(cfg.ifm_block.height) == ifm_h, L(cfg.ifm_block.depth) == idepth)))
    if not ew:
        acc40 = bits == 16 and kind != "pool" and scaled
        acc_bits = 40 if acc40 else 32
        acc_gran = gran[7] if acc40 else gran[6]
        # 1-D optimisation: OFM height 1, kernel height 1 on a 2-high micro-block: the accumulators only need one row
        oh = z3.If(z3.And(L(ofm_h) == 1, kh == 1, uh == 2), z3.If(L(ofm_h) < bh, L(ofm_h), bh), bh) if True else bh
        acc_bytes = (bw * oh * _ru(L(bd), 8) * acc_bits) / 8
        acc_need = _ru(_cdiv(acc_bytes, BANK) * 2, acc_gran)
        cl.append(("IFM partition double-buffers the IFM block at its granule", L(lay.ib_end) - L(lay.ib_start) >= ifm_need))
        cl.append(("accumulator partition double-buffers the OFM block at its granule", L(lay.lut_start) - L(lay.ab_start) >= acc_need))
    else:
        cl.append(("elementwise: no accumulators, IFM area extends to the LUT region", z3.And(L(lay.ab_start) == L(lay.lut_start), L(lay.ib_end) == L(lay.ab_start))))
        cl.append(("elementwise: IFM partition double-buffers the IFM block", L(lay.ib_start2) - L(lay.ib_start) >= ifm_need))
        cl.append(("elementwise: IFM2 partition double-buffers the IFM2 block (empty allowed for a scalar)",
                   L(lay.ib_end) - L(lay.ib_start2) >= (0 if scalar else ifm_need)))
        cl.append(("elementwise: IFM2 partition starts inside the IFM area", z3.And(L(lay.ib_start2) >= L(lay.ib_start), L(lay.ib_start2) <= L(lay.ib_end))))
    return cl + obl


def invalid_rejected(V, accel, which):
    """a block violating the multiple / maximum / positivity rules is rejected"""
    import ethosu.vela.architecture_allocator as aa
    from ethosu.vela.architecture_features import Block
    from ethosu.vela.operation import Kernel, NpuBlockType
    from ethosu.vela.ethos_u55_regs.ethos_u55_regs import resampling_mode
    from harness.c04 import arch_for

    arch = arch_for(accel)
    (uw, uh, ud), _, banks, gran = HW[accel]
    bw = V.int("bw", -4, 80)
    bh = V.int("bh", -4, 40)
    bd = V.int("bd", -8, 160)
    ok = z3.And(L(bw) > 0, L(bw) <= 64, L(bw) % uw == 0, L(bh) > 0, L(bh) <= 32, L(bh) % uh == 0, L(bd) > 0, L(bd) <= 128, L(bd) % ud == 0)
    V.assume(z3.Not(ok))
    # keep the (never reached) size arithmetic linear: fix two of the three dimensions per instance
    if which == "w":
        V.assume(z3.And(L(bh) == uh, L(bd) == ud))
    elif which == "h":
        V.assume(z3.And(L(bw) == uw, L(bd) == ud))
    else:
        V.assume(z3.And(L(bw) == uw, L(bh) == uh))
    with core.shims(*_shims()):
        cfg = aa.try_block_config(Block(bw, bh, bd), arch, NpuBlockType.ConvolutionMxN, Block(64, 64, 64), Block(64, 64, 64), None, False, 8,
                                  False, Kernel(1, 1), 0, True, resampling_mode.NONE)
    rat.exactness_obligations()
    return [("invalid block is rejected", cfg is None)]


def _mk_op(kind, bits, quant_mode, lut, scalar, upscale, traversal, ofm_bits=None):
    from ethosu.vela import api as a

    dt = {8: a.NpuDataType.INT8, 16: a.NpuDataType.INT16, 32: a.NpuDataType.INT32}[bits]

    def fm(h, w, d, q):
        f = a.NpuFeatureMap()
        f.data_type = dt
        f.shape = a.NpuShape3D(h, w, d)
        f.quantization = q
        return f

    q_full = a.NpuQuantization(scale_f32=0.5, zero_point=0)
    q_noscale = a.NpuQuantization(scale_f32=None, zero_point=0)
    q = {"full": q_full, "noscale": q_noscale, "none": None}[quant_mode]
    if kind == "conv":
        op = a.NpuConv2DOperation()
        op.block_traversal = traversal
    elif kind == "dw":
        op = a.NpuConvDepthWiseOperation()
    elif kind == "pool":
        op = a.NpuPoolingOperation(a.NpuPoolingOp.AVERAGE)
    elif kind == "rsum":
        op = a.NpuPoolingOperation(a.NpuPoolingOp.REDUCE_SUM)
    else:
        op = a.NpuElementWiseOperation(a.NpuElementWiseOp.ADD)
    op.ifm = fm(16, 16, 32, q)
    op.ofm = fm(16, 16, 32, q_full)
    if ofm_bits is not None:  # operations whose OFM precision differs from the IFM's (16-bit in / 8-bit out, 8-bit in / 32-bit out ...)
        op.ofm.data_type = {8: a.NpuDataType.INT8, 16: a.NpuDataType.INT16, 32: a.NpuDataType.INT32}[ofm_bits]
    op.kernel = a.NpuKernel(3, 3) if kind != "ew" else a.NpuKernel(1, 1)
    if kind == "ew":
        op.ifm2 = fm(16, 16, 32, q_full)
        if scalar is not None:
            op.ifm2_scalar = scalar
            op.ifm2.shape = a.NpuShape3D(1, 1, 1)
    if lut:
        op.activation = a.NpuActivation(a.NpuActivationOp.TABLE_LOOKUP)
    op.ifm_upscale = {0: a.NpuResamplingMode.NONE, 1: a.NpuResamplingMode.NEAREST, 2: a.NpuResamplingMode.TRANSPOSE}[upscale]
    return op


class _Stop(Exception):
    pass


def query(V, accel, kind, bits, quant_mode, lut, scalar, upscale, partk, bw, bh, ofm_bits=None):
    """the block-config query and the generator derive try_block_config's arguments from the same operation; for a symbolic block
    depth: query accepts => generator accepts"""
    import ethosu.vela.architecture_allocator as aa
    import ethosu.vela.api as api
    import ethosu.vela.register_command_stream_generator as g
    from ethosu.vela.architecture_features import Block
    from harness.c04 import arch_for

    arch = arch_for(accel)
    trav = api.NpuBlockTraversal.PART_KERNEL_FIRST if partk else api.NpuBlockTraversal.DEPTH_FIRST
    sc = {"none": None, "zero": 0.0, "three": 3.0}[scalar]
    op = _mk_op(kind, bits, quant_mode, lut, sc, upscale, trav, ofm_bits)
    cap = {}

    def grab(name):
        def stub(block_config, arch_, *a, **k):
            cap[name] = (a, k)
            raise _Stop()
        return stub

    saved = aa.try_block_config
    try:
        aa.try_block_config = grab("query")
        try:
            api.npu_find_block_configs(op, api.NpuAccelerator[accel])
        except _Stop:
            pass
    finally:
        aa.try_block_config = saved
    saved_g = g.try_block_config
    op.block_config = api.NpuShape3D(bh, bw, 8)
    try:
        g.try_block_config = grab("gen")
        try:
            g.get_arch_block_config(op, trav if kind == "conv" else api.NpuBlockTraversal.DEPTH_FIRST, arch)
        except _Stop:
            pass
    finally:
        g.try_block_config = saved_g
    if "query" not in cap or "gen" not in cap:
        return [("both derivations reached try_block_config", False)]

    def norm(c):
        names = ["npu_op_type", "ofm_shape", "ifm_shape", "ifm2_shape", "uses_scalar", "ifm_bits", "is_partkernel", "kernel", "lut_banks", "scaled", "ifm_resampling"]
        a, k = c
        d = dict(zip(names, a))
        d.update(k)
        return d

    q, ge = norm(cap["query"]), norm(cap["gen"])
    bd = V.int("block_depth", 8, 128)
    V.assume(L(bd) % 8 == 0)
    with core.shims(*_shims()):
        rq = aa.try_block_config(Block(bw, bh, bd), arch, **q)
        rg = aa.try_block_config(Block(bw, bh, bd), arch, **ge)
    rat.exactness_obligations()
    return [("a block the query accepts is accepted by the generator's derivation for the same operation", (rq is None) or (rg is not None))]


def search(V, accel, kind, bits, oh, ow, od, kw, kh, lut, sx=1, sy=1, ifm_d=None):
    """find_block_config's result passes try_block_config with the same description (concrete search, symbolic IFM depth)"""
    import ethosu.vela.architecture_allocator as aa
    from ethosu.vela.architecture_features import Block
    from ethosu.vela.operation import Kernel, NpuBlockType
    from ethosu.vela.shape4d import Shape4D
    from ethosu.vela.ethos_u55_regs.ethos_u55_regs import resampling_mode
    from harness.c04 import arch_for

    arch = arch_for(accel)
    bt = {"conv": NpuBlockType.ConvolutionMxN, "dw": NpuBlockType.ConvolutionDepthWise, "pool": NpuBlockType.Pooling, "ew": NpuBlockType.ElementWise}[kind]
    ifm_d = ifm_d or (od if kind != "conv" else 24)
    kernel = Kernel(kw, kh, sx, sy)
    cfg = aa.find_block_config(arch, bt, Shape4D(1, oh, ow, od), Shape4D(1, oh, ow, ifm_d), Shape4D(1, oh, ow, ifm_d) if kind == "ew" else None,
                               False, bits, kernel, 2 if lut else 0, True, resampling_mode.NONE)
    if cfg is None:
        return [("no configuration found (allowed)", True)]
    ob = cfg.ofm_block
    re = aa.try_block_config(Block(ob.width, ob.height, ob.depth), arch, bt, Block(ow, oh, od), Block(ow, oh, ifm_d),
                             Block(ow, oh, ifm_d) if kind == "ew" else None, False, bits, cfg.is_partkernel, kernel, 2 if lut else 0, True, resampling_mode.NONE)
    cl = [("search result re-validates through try_block_config", re is not None)]
    if re is not None:
        cl.append(("same layout", (re.layout.ib_end, re.layout.ab_start, re.layout.ib_start2, re.layout.lut_start) ==
                   (cfg.layout.ib_end, cfg.layout.ab_start, cfg.layout.ib_start2, cfg.layout.lut_start)))
    return cl


def sched_search(V, accel, kind, lut, oh, ow, od):
    """the block configuration the SCHEDULER selects for an operation (SchedulerOperation._get_block_config -> find_block_config) is one the
    command-stream generator accepts for the same operation: it re-validates through try_block_config with the generator's description of the
    operation (two banks kept for the lookup table exactly when the operation has one) and gets the same layout.  Concrete search, symbolic OFM
    height; the scheduler operation is a stand-in exposing what _get_block_config reads."""
    import ethosu.vela.npu_performance  # noqa: F401
    import ethosu.vela.architecture_allocator as aa
    import ethosu.vela.scheduler as sch
    from ethosu.vela.architecture_features import Block
    from ethosu.vela.operation import Kernel, NpuBlockType, Op
    from ethosu.vela.shape4d import Shape4D
    from ethosu.vela.ethos_u55_regs.ethos_u55_regs import resampling_mode
    from ethosu.vela.data_type import DataType
    from harness.c04 import arch_for

    arch = arch_for(accel)
    V.int("unused", 0, 0)
    optype = {"conv": Op.Conv2DBias, "dw": Op.DepthwiseConv2DBias, "pool": Op.MaxPool, "ew": Op.Add}[kind]
    bt = optype.npu_block_type
    kernel = Kernel(3, 3) if kind in ("conv", "dw") else Kernel(1, 1)
    me = _O(arch=arch, op_type=optype, ifm=_O(dtype=DataType.int8), kernel=kernel, resampling_mode=resampling_mode.NONE,
            parent_op=_O(activation_lut=object() if lut else None, has_scaling=lambda: True))
    ifm_d = od if kind != "conv" else 24
    ifm2 = Shape4D(1, oh, ow, ifm_d) if kind == "ew" else None
    cfg = sch.SchedulerOperation._get_block_config(me, Shape4D(1, oh, ow, ifm_d), ifm2, False, Shape4D(1, oh, ow, od))
    if cfg is None:
        return [("the scheduler finds a configuration for a plain operation", False)]
    ob = cfg.ofm_block
    re = aa.try_block_config(Block(ob.width, ob.height, ob.depth), arch, bt, Block(ow, oh, od), Block(ow, oh, ifm_d),
                             Block(ow, oh, ifm_d) if kind == "ew" else None, False, 8, cfg.is_partkernel, kernel, 2 if lut else 0, True, resampling_mode.NONE)
    cl = [("the scheduler's choice is accepted with the generator's description of the operation", re is not None)]
    if re is not None:
        cl.append(("same shared-buffer layout as the generator will program", (re.layout.ib_end, re.layout.ab_start, re.layout.ib_start2, re.layout.lut_start) ==
                   (cfg.layout.ib_end, cfg.layout.ab_start, cfg.layout.ib_start2, cfg.layout.lut_start)))
    banks = HW[accel][2]
    if lut:
        cl.append(("the lookup table's two banks stay outside every partition", cfg.layout.lut_start <= banks - 2 and cfg.layout.ib_end <= cfg.layout.lut_start
                   and cfg.layout.ab_start <= cfg.layout.lut_start))
    return cl


class _O:
    def __init__(self, **kw):
        self.__dict__.update(kw)


def generator_kernel(V, accel):
    """the shared-buffer layout the command-stream generator programs (IFM_IB_END, AB_START) is derived by get_arch_block_config from the
    operation's kernel: the kernel description it hands to try_block_config carries the operation's own width, height, strides and dilations -
    x in x, y in y - for symbolic values (the KERNEL_* registers are written from the NpuKernel directly, so a slip here leaves them correct and
    only the layout wrong)."""
    import ethosu.vela.api as api
    import ethosu.vela.register_command_stream_generator as g
    import ethosu.vela.register_command_stream_util as u
    from harness.c04 import arch_for

    arch = arch_for(accel)
    kw, kh = V.int("kernel_w", 1, 8), V.int("kernel_h", 1, 8)
    sx, sy = V.int("stride_x", 1, 3), V.int("stride_y", 1, 3)
    dx, dy = V.int("dilation_x", 1, 2), V.int("dilation_y", 1, 2)
    op = _mk_op("conv", 8, "full", 0, None, 0, api.NpuBlockTraversal.DEPTH_FIRST)
    op.kernel = api.NpuKernel(kw, kh, sx, sy, dx, dy)
    op.block_config = api.NpuShape3D(4, 8, 16)
    cap = {}

    def stub(block_config, arch_, *a, **k):
        names = ["npu_op_type", "ofm_shape", "ifm_shape", "ifm2_shape", "uses_scalar", "ifm_bits", "is_partkernel", "kernel", "lut_banks", "scaled", "ifm_resampling"]
        d = dict(zip(names, a))
        d.update(k)
        cap.update(d)
        raise _Stop()

    saved = g.try_block_config
    g.try_block_config = stub
    try:
        with core.shims((u, {"min": core.smin, "max": core.smax}), (g, {"min": core.smin, "max": core.smax})):
            try:
                g.get_arch_block_config(op, api.NpuBlockTraversal.DEPTH_FIRST, arch)
            except _Stop:
                pass
    finally:
        g.try_block_config = saved
    k = cap.get("kernel")
    if k is None:
        return [("the generator asks for a layout", False)]
    return [("kernel width and height", z3.And(L(k.width) == L(kw), L(k.height) == L(kh))),
            ("strides: x in x, y in y", z3.And(L(k.stride.x) == L(sx), L(k.stride.y) == L(sy))),
            ("dilations: x in x, y in y", z3.And(L(k.dilation.x) == L(dx), L(k.dilation.y) == L(dy)))]


def generator_args(V, accel):
    """... and every other fact get_arch_block_config hands to try_block_config is the operation's: an elementwise operation whose three feature
    maps are, independently, fully quantised / without a scale / without quantisation parameters, whose second operand is a tensor or carries a
    scalar, with or without a lookup-table activation, 8 or 16 bit (forked choices).  Claims on the captured arguments: `scaled` (selects the
    accumulator format and its SHRAM granule) exactly when ALL of IFM, IFM2 - also a scalar-carrying one - and OFM have a scale; uses_scalar,
    lut_banks, ifm_bits, the IFM2 shape (absent for a scalar) and the block type as the operation says."""
    import ethosu.vela.api as api
    import ethosu.vela.register_command_stream_generator as g
    import ethosu.vela.register_command_stream_util as u
    from ethosu.vela.operation import NpuBlockType
    from harness.c04 import arch_for

    arch = arch_for(accel)
    modes = ("full", "noscale", "none")
    qm = {n: V.choice("%s quantisation" % n, modes) for n in ("ifm", "ifm2", "ofm")}
    scalar = V.choice("second operand", ("tensor", "scalar"))
    lut = V.choice("lookup-table activation", (False, True))
    bits = V.choice("bits", (8, 16))
    op = _mk_op("ew", bits, "full", 1 if lut else 0, 3 if scalar == "scalar" else None, 0, api.NpuBlockTraversal.DEPTH_FIRST)
    q = {"full": lambda: api.NpuQuantization(scale_f32=0.5, zero_point=0), "noscale": lambda: api.NpuQuantization(scale_f32=None, zero_point=0), "none": lambda: None}
    op.ifm.quantization, op.ifm2.quantization, op.ofm.quantization = q[qm["ifm"]](), q[qm["ifm2"]](), q[qm["ofm"]]()
    op.block_config = api.NpuShape3D(4, 8, 16)
    cap = {}

    def stub(block_config, arch_, *a, **k):
        names = ["npu_op_type", "ofm_shape", "ifm_shape", "ifm2_shape", "uses_scalar", "ifm_bits", "is_partkernel", "kernel", "lut_banks", "scaled", "ifm_resampling"]
        cap.update(dict(zip(names, a)))
        cap.update(k)
        raise _Stop()

    saved = g.try_block_config
    g.try_block_config = stub
    try:
        try:
            g.get_arch_block_config(op, api.NpuBlockTraversal.DEPTH_FIRST, arch)
        except _Stop:
            pass
    finally:
        g.try_block_config = saved
    if "scaled" not in cap:
        return [("the generator asks for a layout", False)]
    want_scaled = all(m == "full" for m in qm.values())
    return [("scaled == every feature map of the operation (a scalar-carrying IFM2 included) has a quantisation scale [%s]" % ", ".join("%s %s" % kv for kv in sorted(qm.items())),
             bool(cap["scaled"]) == want_scaled),
            ("uses_scalar as the operation says", bool(cap["uses_scalar"]) == (scalar == "scalar")),
            ("IFM2 shape handed over exactly for a tensor operand", (cap["ifm2_shape"] is None) == (scalar == "scalar")),
            ("two LUT banks exactly with a lookup-table activation", cap["lut_banks"] == (2 if lut else 0)),
            ("IFM bits", cap["ifm_bits"] == bits), ("block type", cap["npu_op_type"] == NpuBlockType.ElementWise)]


def accepts_minimal(V, accel, kind, bits, lut):
    """liveness of the validity check (the `layout` lemma lets try_block_config reject anything): the smallest legal block - one micro-block - is
    accepted for every operation kind, data width and IFM depth; a check that rejected everything would leave the scheduler without any
    configuration"""
    import ethosu.vela.architecture_allocator as aa
    from ethosu.vela.architecture_features import Block
    from ethosu.vela.operation import Kernel, NpuBlockType
    from ethosu.vela.ethos_u55_regs.ethos_u55_regs import resampling_mode
    from harness.c04 import arch_for

    arch = arch_for(accel)
    (uw, uh, ud), _, banks, gran = HW[accel]
    ifm_d = V.int("ifm_depth", 1, 4096)
    bt = {"conv": NpuBlockType.ConvolutionMxN, "dw": NpuBlockType.ConvolutionDepthWise, "pool": NpuBlockType.Pooling, "ew": NpuBlockType.ElementWise}[kind]
    shp = Block(64, 64, ifm_d)
    with core.shims(*_shims()):
        cfg = aa.try_block_config(Block(uw, uh, ud), arch, bt, Block(64, 64, 64), shp, shp if kind == "ew" else None, False, bits, False,
                                  Kernel(1, 1) if kind in ("ew", "pool") else Kernel(3, 3), 2 if lut else 0, True, resampling_mode.NONE)
    rat.exactness_obligations()
    return [("one micro-block is accepted", cfg is not None)]


FUNCS = {"generator_args": generator_args, "generator_kernel": generator_kernel, "accepts_minimal": accepts_minimal, "sched_search": sched_search, "layout": layout, "invalid_rejected": invalid_rejected, "query": query, "search": search}


def instances(tier, seed):
    import random

    out = []
    quick = tier == "quick"
    r = random.Random(seed)
    kernels = [(1, 1, 1), (3, 3, 1), (1, 7, 1), (9, 9, 1), (2, 5, 2)]
    for accel, ((uw, uh, ud), _, banks, gran) in HW.items():
        mults = [1, 2, 3, 4, 8, 16]
        ws = sorted({min(m * uw, 64) for m in mults} | {64})
        hs = sorted({min(m * uh, 32) for m in mults} | {32})
        combos = []
        for kind in ("conv", "dw", "pool", "rsum", "ew"):
            for bits in ((8, 16) if kind != "ew" else (8, 16, 32)):
                for bw in ws:
                    for bh in hs:
                        for (kw, kh, dil) in (kernels if kind != "ew" else [(1, 1, 1)]):
                            for stride in ((1, 2) if kind != "ew" else (1,)):
                                for lut in (0, 1):
                                    for scalar in ((0, 1) if kind == "ew" else (0,)):
                                        for upscale in ((0, 1) if kind in ("conv", "pool") else (0,)):
                                            for partk in ((0, 1) if kind == "conv" else (0,)):
                                                combos.append(dict(accel=accel, kind=kind, bits=bits, bw=bw, bh=bh, kw=kw, kh=kh, dil=dil, stride=stride,
                                                                   lut=lut, scalar=scalar, upscale=upscale, partk=partk, scaled=1))
                                                if kind != "ew" and stride == 2 and lut == 0:  # asymmetric strides (2x1 and 1x3)
                                                    combos.append(dict(accel=accel, kind=kind, bits=bits, bw=bw, bh=bh, kw=kw, kh=kh, dil=dil, stride=2,
                                                                       lut=lut, scalar=scalar, upscale=upscale, partk=partk, scaled=1, stride_y=1))
                                                    combos.append(dict(accel=accel, kind=kind, bits=bits, bw=bw, bh=bh, kw=kw, kh=kh, dil=dil, stride=1,
                                                                       lut=lut, scalar=scalar, upscale=upscale, partk=partk, scaled=1, stride_y=3))
        if quick:
            r.shuffle(combos)
            combos = combos[:260]
        # x2 TRANSPOSE resampling (transpose convolutions; stride 1 after the lowering): always run, even and odd kernels, every block size
        for bw in ws:
            for bh in hs:
                for (kw, kh) in ((2, 2), (3, 3), (4, 4), (1, 2)):
                    for bits in (8, 16):
                        if quick and (bits == 16) != ((kw, kh) == (3, 3)):
                            continue
                        combos.append(dict(accel=accel, kind="conv", bits=bits, bw=bw, bh=bh, kw=kw, kh=kh, dil=1, stride=1, lut=0, scalar=0, upscale=2, partk=0, scaled=1))
        for c in combos:
            out.append(dict(key="layout/%s/%s%d/b%dx%d/k%dx%dd%d/s%dx%s/l%d_sc%d_u%d_p%d" % (c["accel"], c["kind"], c["bits"], c["bh"], c["bw"], c["kh"], c["kw"],
                                                                                         c["dil"], c["stride"], c.get("stride_y", c["stride"]), c["lut"], c["scalar"], c["upscale"], c["partk"]),
                            fn="layout", params=c))
        for kind in ("conv", "dw", "pool", "ew"):
            for bits in (8, 16):
                for lut in (0, 1):
                    out.append(dict(key="accepts_minimal/%s/%s%d/lut%d" % (accel, kind, bits, lut), fn="accepts_minimal", params=dict(accel=accel, kind=kind, bits=bits, lut=lut)))
        for kind in ("conv", "dw", "pool", "ew"):
            for lut in (0, 1):
                for (oh, ow, od) in ((1, 32, 64), (16, 16, 32), (8, 64, 16)):
                    out.append(dict(key="sched_search/%s/%s/lut%d/%dx%dx%d" % (accel, kind, lut, oh, ow, od), fn="sched_search",
                                    params=dict(accel=accel, kind=kind, lut=lut, oh=oh, ow=ow, od=od)))
        if accel in ("Ethos_U55_128", "Ethos_U65_512"):
            out.append(dict(key="generator_kernel/%s" % accel, fn="generator_kernel", params=dict(accel=accel)))
            out.append(dict(key="generator_args/%s" % accel, fn="generator_args", params=dict(accel=accel)))
        for which in ("w", "h", "d"):
            out.append(dict(key="invalid_rejected/%s/%s" % (accel, which), fn="invalid_rejected", params=dict(accel=accel, which=which)))
        for kind in ("conv", "dw", "pool", "ew"):
            for bits in (8, 16):
                for quant_mode in ("full", "noscale", "none"):
                    for lut in (0, 1):
                        for scalar in (("none", "zero", "three") if kind == "ew" else ("none",)):
                            for upscale in ((0, 1) if kind == "conv" else (0,)):
                                for partk in ((0, 1) if kind == "conv" else (0,)):
                                    blocks = [(ws[1], hs[1]), (ws[-1], hs[-1]), (ws[3], hs[2])]
                                    if quick:
                                        blocks = blocks[seed % 3:seed % 3 + 1] + blocks[-2:-1]
                                    for bw, bh in blocks:
                                        out.append(dict(key="query/%s/%s%d/%s/l%d/%s/u%d/p%d/b%dx%d" % (accel, kind, bits, quant_mode, lut, scalar, upscale, partk, bh, bw), fn="query",
                                                        params=dict(accel=accel, kind=kind, bits=bits, quant_mode=quant_mode, lut=lut, scalar=scalar, upscale=upscale, partk=partk, bw=bw, bh=bh)))
        for kind in ("conv", "dw", "pool", "ew"):
            for bits, ofm_bits in ((16, 8), (8, 16), (8, 32), (16, 32)):
                for bw, bh in [(ws[-1], hs[-1]), (ws[3], hs[2])]:
                    out.append(dict(key="query/%s/%s%d_to_%d/b%dx%d" % (accel, kind, bits, ofm_bits, bh, bw), fn="query",
                                    params=dict(accel=accel, kind=kind, bits=bits, quant_mode="full", lut=0, scalar="none", upscale=0, partk=0, bw=bw, bh=bh, ofm_bits=ofm_bits)))
        shapes = [(1, 1, 8), (1, 64, 32), (7, 7, 5), (16, 16, 64), (13, 3, 17)] if quick else [(1, 1, 8), (1, 64, 32), (7, 7, 5), (16, 16, 64), (13, 3, 17), (2, 2, 128), (31, 1, 9), (5, 11, 48)]
        for kind in ("conv", "dw", "pool", "ew"):
            for bits in (8, 16):
                for (oh, ow, od) in shapes:
                    out.append(dict(key="search/%s/%s%d/%dx%dx%d" % (accel, kind, bits, oh, ow, od), fn="search",
                                    params=dict(accel=accel, kind=kind, bits=bits, oh=oh, ow=ow, od=od, kw=3 if kind != "ew" else 1, kh=3 if kind != "ew" else 1, lut=0)))
        # one-row OFMs with a one-row kernel (the Conv1D SHRAM optimisation) and vertical stride > 1, wide and deep enough to be near the SHRAM limit
        for kind in ("conv", "dw", "pool"):
            for bits in (8, 16):
                for (ow, od, ifd) in ((64, 64, 64), (32, 128, 32), (64, 32, 128)):
                    for (sx, sy) in ((2, 2), (1, 2), (1, 3), (1, 1)):
                        out.append(dict(key="search/%s/%s%d/1x%dx%d/k1x1/s%dx%d/i%d" % (accel, kind, bits, ow, od, sx, sy, ifd), fn="search",
                                        params=dict(accel=accel, kind=kind, bits=bits, oh=1, ow=ow, od=od, kw=1, kh=1, lut=0, sx=sx, sy=sy, ifm_d=ifd)))
    return out
